//! Independent protobuf wire decoder for io.prometheus.client.MetricFamily (field numbers copied
//! from proto/proto_model.proto). Unknown fields, wrong wire types and trailing bytes are errors.
use crate::compat::{PFamily, PHist, PMetric, PSummary, PType};

struct Rd<'a> {
    b: &'a [u8],
    p: usize,
}
impl<'a> Rd<'a> {
    fn eof(&self) -> bool {
        self.p >= self.b.len()
    }
    fn varint(&mut self) -> Result<u64, String> {
        let mut v: u64 = 0;
        let mut shift = 0;
        loop {
            let byte = *self.b.get(self.p).ok_or("truncated varint")?;
            self.p += 1;
            if shift >= 64 {
                return Err("varint too long".into());
            }
            v |= ((byte & 0x7f) as u64) << shift;
            if byte & 0x80 == 0 {
                return Ok(v);
            }
            shift += 7;
        }
    }
    fn fixed64(&mut self) -> Result<u64, String> {
        let s = self.b.get(self.p..self.p + 8).ok_or("truncated fixed64")?;
        self.p += 8;
        Ok(u64::from_le_bytes(s.try_into().unwrap()))
    }
    fn bytes(&mut self) -> Result<&'a [u8], String> {
        let n = self.varint()? as usize;
        let s = self.b.get(self.p..self.p.checked_add(n).ok_or("length overflow")?).ok_or("truncated length-delimited field")?;
        self.p += n;
        Ok(s)
    }
    /// (field number, wire type)
    fn tag(&mut self) -> Result<(u64, u8), String> {
        let t = self.varint()?;
        Ok((t >> 3, (t & 7) as u8))
    }
}

fn string(b: &[u8]) -> Result<String, String> {
    String::from_utf8(b.to_vec()).map_err(|_| "string field is not UTF-8".to_string())
}
fn double(r: &mut Rd, wt: u8) -> Result<f64, String> {
    if wt != 1 {
        return Err(format!("double field with wire type {}", wt));
    }
    Ok(f64::from_bits(r.fixed64()?))
}
fn uint(r: &mut Rd, wt: u8) -> Result<u64, String> {
    if wt != 0 {
        return Err(format!("varint field with wire type {}", wt));
    }
    r.varint()
}
fn sub<'a>(r: &mut Rd<'a>, wt: u8) -> Result<Rd<'a>, String> {
    if wt != 2 {
        return Err(format!("message/string field with wire type {}", wt));
    }
    Ok(Rd { b: r.bytes()?, p: 0 })
}

fn value_msg(mut r: Rd) -> Result<f64, String> {
    let mut v = 0.0;
    while !r.eof() {
        let (f, wt) = r.tag()?;
        match f {
            1 => v = double(&mut r, wt)?,
            o => return Err(format!("unknown field {} in value message", o)),
        }
    }
    Ok(v)
}

fn label(mut r: Rd) -> Result<(String, String), String> {
    let (mut n, mut v) = (String::new(), String::new());
    while !r.eof() {
        let (f, wt) = r.tag()?;
        match f {
            1 => n = string(sub(&mut r, wt)?.b)?,
            2 => v = string(sub(&mut r, wt)?.b)?,
            o => return Err(format!("unknown field {} in LabelPair", o)),
        }
    }
    Ok((n, v))
}

fn histogram(mut r: Rd) -> Result<PHist, String> {
    let mut h = PHist { count: 0, sum: 0.0, buckets: vec![] };
    while !r.eof() {
        let (f, wt) = r.tag()?;
        match f {
            1 => h.count = uint(&mut r, wt)?,
            2 => h.sum = double(&mut r, wt)?,
            3 => {
                let mut b = sub(&mut r, wt)?;
                let (mut cc, mut ub) = (0u64, 0.0);
                while !b.eof() {
                    let (f, wt) = b.tag()?;
                    match f {
                        1 => cc = uint(&mut b, wt)?,
                        2 => ub = double(&mut b, wt)?,
                        o => return Err(format!("unknown field {} in Bucket", o)),
                    }
                }
                h.buckets.push((ub, cc));
            }
            o => return Err(format!("unknown field {} in Histogram", o)),
        }
    }
    Ok(h)
}

fn summary(mut r: Rd) -> Result<PSummary, String> {
    let mut s = PSummary { count: 0, sum: 0.0, quantiles: vec![] };
    while !r.eof() {
        let (f, wt) = r.tag()?;
        match f {
            1 => s.count = uint(&mut r, wt)?,
            2 => s.sum = double(&mut r, wt)?,
            3 => {
                let mut b = sub(&mut r, wt)?;
                let (mut q, mut v) = (0.0, 0.0);
                while !b.eof() {
                    let (f, wt) = b.tag()?;
                    match f {
                        1 => q = double(&mut b, wt)?,
                        2 => v = double(&mut b, wt)?,
                        o => return Err(format!("unknown field {} in Quantile", o)),
                    }
                }
                s.quantiles.push((q, v));
            }
            o => return Err(format!("unknown field {} in Summary", o)),
        }
    }
    Ok(s)
}

fn metric(mut r: Rd) -> Result<PMetric, String> {
    let mut m = PMetric::default();
    while !r.eof() {
        let (f, wt) = r.tag()?;
        match f {
            1 => m.labels.push(label(sub(&mut r, wt)?)?),
            2 => m.gauge = Some(value_msg(sub(&mut r, wt)?)?),
            3 => m.counter = Some(value_msg(sub(&mut r, wt)?)?),
            4 => m.summary = Some(summary(sub(&mut r, wt)?)?),
            5 => m.untyped = Some(value_msg(sub(&mut r, wt)?)?),
            7 => m.hist = Some(histogram(sub(&mut r, wt)?)?),
            6 => m.ts = uint(&mut r, wt)? as i64,
            o => return Err(format!("unknown field {} in Metric", o)),
        }
    }
    Ok(m)
}

fn family(mut r: Rd) -> Result<PFamily, String> {
    let mut f = PFamily { name: None, help: None, typ: PType::Counter, metrics: vec![] };
    while !r.eof() {
        let (fnum, wt) = r.tag()?;
        match fnum {
            1 => f.name = Some(string(sub(&mut r, wt)?.b)?),
            2 => f.help = Some(string(sub(&mut r, wt)?.b)?),
            3 => {
                f.typ = match uint(&mut r, wt)? {
                    0 => PType::Counter,
                    1 => PType::Gauge,
                    2 => PType::Summary,
                    3 => PType::Untyped,
                    4 => PType::Histogram,
                    o => return Err(format!("unknown MetricType {}", o)),
                }
            }
            4 => f.metrics.push(metric(sub(&mut r, wt)?)?),
            o => return Err(format!("unknown field {} in MetricFamily", o)),
        }
    }
    Ok(f)
}

/// Decode a stream of varint-length-delimited MetricFamily messages; nothing else may be in it.
pub fn decode_stream(bytes: &[u8]) -> Result<Vec<PFamily>, String> {
    let mut r = Rd { b: bytes, p: 0 };
    let mut out = vec![];
    while !r.eof() {
        let body = r.bytes().map_err(|e| format!("family {}: {}", out.len(), e))?;
        out.push(family(Rd { b: body, p: 0 }).map_err(|e| format!("family {}: {}", out.len(), e))?);
    }
    Ok(out)
}
