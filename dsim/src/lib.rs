//! dsim: deterministic simulation with fault injection for tikv/rust-prometheus.
pub mod cli;
pub mod common;
pub mod compat;
pub mod driver;
pub mod engine;
pub mod lin;
pub mod pbdecode;
pub mod quarantine;
pub mod rng;
pub mod scen;
pub mod seams;
pub mod textparse;

#[global_allocator]
static ALLOC: quarantine::Quarantine = quarantine::Quarantine;
