//! C02 / C03: the two-shard histogram under concurrent observers and collectors.
use crate::common::*;
use crate::compat::{self, PHist};
use crate::driver::{Info, RunOut, Scenario, Tier, Violation};
use crate::engine::{Env, Ev, Mode, Outcome, Stall};
use crate::rng::Rng;
use crate::scen::value::{shrink_env, shrink_threads};
use prometheus::core::{Collector, Metric};
use prometheus::verif::OpKind;
use prometheus::*;
use serde::{Deserialize, Serialize};
use serde_json::Value;
use std::collections::BTreeMap;
use std::sync::{Arc, Mutex};

#[derive(Serialize, Deserialize, Clone, Debug, PartialEq)]
pub enum Via {
    Metric,
    Collector,
    VecCollect,
    Gather,
}
#[derive(Serialize, Deserialize, Clone, Debug, PartialEq)]
pub enum HOp {
    /// observe(2^k)
    Observe(u8),
    /// local(): observe(2^k) for each k; then flush() (explicit) or drop (implicit flush)
    /// with `clone_mid` the local histogram is cloned after the first observation (a clone starts
    /// empty), the remaining observations go to the clone, and both are flushed / dropped in that
    /// order: two batches
    LocalBatch {
        ks: Vec<u8>,
        explicit: bool,
        #[serde(default)]
        clone_mid: bool,
    },
    Collect(Via),
    Count,
    Sum,
}
#[derive(Serialize, Deserialize, Clone, Debug, PartialEq)]
pub enum Container {
    Plain,
    PlainRegistry,
    Vec,
    VecRegistry,
}
#[derive(Serialize, Deserialize, Clone, Debug)]
pub struct HistPlan {
    pub env: Env,
    /// bucket bounds are 2^e
    pub bound_exps: Vec<u8>,
    pub container: Container,
    pub threads: Vec<Vec<HOp>>,
    /// every observed value and every bound is negated (-(2^k)): sums run negative
    #[serde(default)]
    pub negate: bool,
    /// vector containers: the child does not exist when the threads start; every operation looks it
    /// up (and the first ones create it) through with_label_values
    #[serde(default)]
    pub lazy_child: bool,
    /// every thread keeps ONE local histogram for all its local batches (each batch ends with an
    /// explicit flush) instead of a fresh one per batch: a flush must leave the handle as good as new
    #[serde(default)]
    pub persistent_local: bool,
}
thread_local! {
    /// the per-thread local histogram of `persistent_local` plans (simulated threads are fresh OS threads)
    static PLOCAL: std::cell::RefCell<Option<prometheus::local::LocalHistogram>> = std::cell::RefCell::new(None);
}
fn bounds_of(plan: &HistPlan) -> Vec<f64> {
    let mut b: Vec<f64> = plan.bound_exps.iter().map(|e| (1u64 << e) as f64).collect();
    if plan.negate {
        b = b.into_iter().rev().map(|x| -x).collect();
    }
    b
}
fn val_of(neg: bool, k: u8) -> f64 {
    let v = (1u64 << k) as f64;
    if neg {
        -v
    } else {
        v
    }
}

#[derive(Clone, Debug)]
pub enum HRes {
    None,
    Snap(PHist),
    Count(u64),
    Sum(f64),
}

fn gen_plan(seed: u64, long: bool) -> HistPlan {
    let mut r = Rng::new(seed, 1);
    // mostly 1-4 bounds; sometimes more than 16 (implementations may switch search strategy with size)
    let nb = if r.chance(12) { 17 + r.below(16) as usize } else { 1 + r.below(4) as usize };
    let mut exps: Vec<u8> = (0..nb).map(|_| r.below(40) as u8).collect();
    exps.sort();
    exps.dedup();
    let container = match r.below(10) {
        0..=4 => Container::Plain,
        5 => Container::PlainRegistry,
        6..=7 => Container::Vec,
        _ => Container::VecRegistry,
    };
    let n_obs = 1 + r.below(3) as usize;
    let n_col = if long { 1 + r.below(2) as usize } else { 1 + r.below(2) as usize };
    let single = r.chance(6);
    let mut next_k = 0u8;
    let mut threads: Vec<Vec<HOp>> = vec![];
    let mut nobs_total = 0;
    let pick_via = |r: &mut Rng| -> Via {
        let mut c = vec![Via::Metric, Via::Collector];
        match container {
            Container::Plain => {}
            Container::PlainRegistry => c.push(Via::Gather),
            Container::Vec => c.push(Via::VecCollect),
            Container::VecRegistry => {
                c.push(Via::VecCollect);
                c.push(Via::Gather)
            }
        }
        r.pick(&c).clone()
    };
    for _ in 0..n_obs {
        let n = 1 + r.below(if long { 5 } else { 4 }) as usize;
        let mut ops = vec![];
        for _ in 0..n {
            if nobs_total >= 38 {
                break;
            }
            if r.chance(22) {
                let m = (1 + r.below(3) as u8).min(40 - next_k.min(40));
                let ks: Vec<u8> = (0..m).map(|i| next_k + i).collect();
                next_k += m;
                nobs_total += m as usize;
                ops.push(HOp::LocalBatch { ks, explicit: r.chance(60), clone_mid: r.chance(30) });
            } else {
                ops.push(HOp::Observe(next_k));
                next_k += 1;
                nobs_total += 1;
            }
            if long && r.chance(10) {
                ops.push(if r.chance(50) { HOp::Count } else { HOp::Sum });
            }
        }
        threads.push(ops);
    }
    let mut ncollect = 0;
    for _ in 0..n_col {
        let n = 1 + r.below(3) as usize;
        let mut ops = vec![];
        for _ in 0..n {
            ops.push(HOp::Collect(pick_via(&mut r)));
            ncollect += 1;
            if long && r.chance(25) {
                ops.push(if r.chance(50) { HOp::Count } else { HOp::Sum });
            }
        }
        threads.push(ops);
    }
    if long {
        while ncollect < 3 {
            let t = threads.len() - 1;
            threads[t].push(HOp::Collect(pick_via(&mut r)));
            ncollect += 1;
        }
    }
    if single {
        // sequential history: everything on one thread, interleaved
        let mut all: Vec<HOp> = threads.into_iter().flatten().collect();
        r.shuffle(&mut all);
        threads = vec![all];
    }
    // the k values must be unique but need not be ordered with respect to bounds: shuffle exps over values
    let nthreads = threads.len();
    let nops: u64 = threads.iter().map(|t| t.len() as u64).sum();
    let faults = r.chance(60);
    let mut env = Env::swarm(&mut r, nthreads, nops * 8 + 20, faults);
    env.hb = true;
    if faults && nthreads > 1 && r.chance(35) {
        // long stall of an observer, biased into the middle of an observe call
        let t = r.below(n_obs.min(nthreads) as u64) as usize;
        let at = r.below((threads[t].len() as u64) * 5 + 1) as u32;
        env.stall = Some(Stall { thread: t, at, len: 30 + r.below(60) as u32 });
    }
    let negate = r.chance(15);
    let lazy_child = matches!(container, Container::Vec | Container::VecRegistry) && r.chance(35);
    let persistent_local = !lazy_child && r.chance(30);
    HistPlan { env, bound_exps: exps, container, threads, negate, lazy_child, persistent_local }
}

struct Objects {
    neg: bool,
    persistent: bool,
    lazy: bool,
    bounds: Vec<f64>,
    h: Option<Histogram>,
    hv: Option<HistogramVec>,
    reg: Option<Registry>,
}

impl Objects {
    /// the histogram under test (looked up in the vector, and created if need be, in lazy mode)
    fn hist(&self) -> Histogram {
        match (&self.h, &self.hv) {
            (Some(h), _) if !self.lazy => h.clone(),
            (_, Some(hv)) => hv.with_label_values(&["x"]),
            (Some(h), None) => h.clone(),
            _ => unreachable!(),
        }
    }
}

fn build(plan: &HistPlan) -> Objects {
    let bounds = bounds_of(plan);
    let neg = plan.negate;
    let opts = HistogramOpts::new("c02_hist", "histogram under test").buckets(bounds);
    match plan.container {
        Container::Plain | Container::PlainRegistry => {
            let h = Histogram::with_opts(opts).unwrap();
            let reg = if plan.container == Container::PlainRegistry {
                let r = Registry::new();
                r.register(Box::new(h.clone())).unwrap();
                Some(r)
            } else {
                None
            };
            Objects { neg, persistent: plan.persistent_local, lazy: false, bounds: bounds_of(plan), h: Some(h), hv: None, reg }
        }
        _ => {
            let hv = HistogramVec::new(opts, &["l"]).unwrap();
            let h = if plan.lazy_child { None } else { Some(hv.with_label_values(&["x"])) };
            let reg = if plan.container == Container::VecRegistry {
                let r = Registry::new();
                r.register(Box::new(hv.clone())).unwrap();
                Some(r)
            } else {
                None
            };
            Objects { neg, persistent: plan.persistent_local, lazy: plan.lazy_child, bounds: bounds_of(plan), h, hv: Some(hv), reg }
        }
    }
}

fn snapshot(o: &Objects, via: &Via) -> PHist {
    let pick = |mfs: Vec<proto::MetricFamily>| -> PHist {
        // (lazy mode: before anybody created the child the vector / registry shows nothing: an empty snapshot)
        let empty = || PHist { count: 0, sum: 0.0, buckets: o.bounds.iter().map(|b| (*b, 0)).collect() };
        match mfs.first().map(compat::family_of) {
            Some(f) if !f.metrics.is_empty() => f.metrics[0].hist.clone().expect("histogram payload"),
            _ if o.lazy => empty(),
            _ => panic!("no sample in the collection"),
        }
    };
    match via {
        Via::Metric => compat::metric_of(&o.hist().metric(), compat::PType::Histogram).hist.expect("histogram payload"),
        Via::Collector => pick(o.hist().collect()),
        Via::VecCollect => pick(o.hv.as_ref().expect("vec").collect()),
        Via::Gather => pick(o.reg.as_ref().expect("registry").gather()),
    }
}

fn exec_op(o: &Objects, op: &HOp) -> HRes {
    match op {
        HOp::Observe(k) => {
            o.hist().observe(val_of(o.neg, *k));
            HRes::None
        }
        HOp::LocalBatch { ks, .. } if o.persistent => {
            PLOCAL.with(|p| {
                let mut p = p.borrow_mut();
                let l = p.get_or_insert_with(|| o.hist().local());
                for k in ks {
                    l.observe(val_of(o.neg, *k));
                }
                l.flush();
                l.flush();
            });
            HRes::None
        }
        HOp::LocalBatch { ks, explicit, clone_mid } => {
            let l = o.hist().local();
            let mut l2 = None;
            for (i, k) in ks.iter().enumerate() {
                if *clone_mid && i == 1 {
                    l2 = Some(l.clone());
                }
                match &l2 {
                    Some(c) => c.observe(val_of(o.neg, *k)),
                    None => l.observe(val_of(o.neg, *k)),
                }
            }
            if *explicit {
                l.flush();
                if let Some(c) = &l2 {
                    c.flush();
                }
                l.flush();
            }
            drop(l);
            drop(l2);
            HRes::None
        }
        HOp::Collect(via) => HRes::Snap(snapshot(o, via)),
        HOp::Count => HRes::Count(o.hist().get_sample_count()),
        HOp::Sum => HRes::Sum(o.hist().get_sample_sum()),
    }
}

struct Obs {
    id: u32,
    inv: usize,
    ret: usize,
    bits: u64,
    thread: usize,
    pos: usize,
}

fn execute(prop: &'static str, plan: &HistPlan, mode: Mode) -> RunOut {
    let sim = new_sim(&plan.env, mode);
    let results: Results<HRes> = Arc::new(Mutex::new(vec![]));
    let o = Arc::new(build(plan));
    {
        let o = o.clone();
        spawn_threads(&sim, &plan.threads, &results, move |_ctx, _t, _i, op: &HOp| exec_op(&o, op));
    }
    let finals: Arc<Mutex<Option<(PHist, u64, f64)>>> = Arc::new(Mutex::new(None));
    {
        let o = o.clone();
        let finals = finals.clone();
        spawn_final(&sim, move |_ctx| {
            let s = snapshot(&o, &Via::Metric);
            let c = o.hist().get_sample_count();
            let m = o.hist().get_sample_sum();
            *finals.lock().unwrap() = Some((s, c, m));
        });
    }
    let res = sim.run();
    let mut out = base_out(&plan.env, &res);
    let cls = |c: &str| format!("{}/{}", prop, c);
    for (t, p) in &res.panics {
        out.violations.push(Violation::new(&cls("panic"), cls("panic"), format!("thread {} panicked: {}", t, p)));
    }
    for r in res.races.iter().take(1) {
        out.violations.push(Violation::new(&cls("hb"), cls("hb"), format!("happens-before obligation violated: {}", r)));
    }
    if res.outcome == Outcome::Stuck {
        out.violations.push(Violation::new(&cls("progress"), cls("progress"), "run is stuck: a collect (or observe) call waits for something no thread will ever do".to_string()));
        return out;
    }
    if !is_finished(&res) {
        return out;
    }
    let iv = intervals(&res.log);
    let results = results.lock().unwrap();
    let mut obs: Vec<Obs> = vec![];
    let mut snaps: Vec<(u32, usize, usize, PHist)> = vec![];
    let mut getters: Vec<(u32, usize, usize, HRes)> = vec![];
    for (id, r) in results.iter() {
        let t = op_thread(*id);
        let i = *id as usize % 1000;
        let (inv, ret) = iv[id];
        let op = &plan.threads[t][i];
        let r = match r {
            Ok(r) => r,
            Err(p) => {
                out.violations.push(Violation::new(&cls("panic"), cls("panic"), format!("op {:?} panicked: {}", op, p)));
                continue;
            }
        };
        match (op, r) {
            (HOp::Observe(k), _) => obs.push(Obs { id: *id, inv, ret, bits: 1u64 << k, thread: t, pos: i }),
            (HOp::LocalBatch { ks, clone_mid, .. }, _) if *clone_mid && ks.len() >= 2 && !plan.persistent_local => {
                obs.push(Obs { id: *id, inv, ret, bits: 1u64 << ks[0], thread: t, pos: i });
                obs.push(Obs { id: *id, inv, ret, bits: ks[1..].iter().fold(0, |a, k| a | 1u64 << k), thread: t, pos: i });
            }
            (HOp::LocalBatch { ks, .. }, _) => obs.push(Obs { id: *id, inv, ret, bits: ks.iter().fold(0, |a, k| a | 1u64 << k), thread: t, pos: i }),
            (HOp::Collect(_), HRes::Snap(s)) => snaps.push((*id, inv, ret, s.clone())),
            (_, x) => getters.push((*id, inv, ret, x.clone())),
        }
    }
    let all_bits: u64 = obs.iter().fold(0, |a, o| a | o.bits);
    let bounds = bounds_of(plan);
    let neg = plan.negate;
    let unsign = |x: f64| if neg { -x } else { x };
    let mut sets: Vec<(u32, usize, usize, u64)> = vec![];
    let (final_snap, final_count, final_sum) = match finals.lock().unwrap().clone() {
        Some(x) => x,
        None => {
            out.violations.push(Violation::new(&cls("panic"), cls("panic"), "the quiescent collect did not complete".to_string()));
            return out;
        }
    };
    let (finv, fret) = iv[&FINAL_OP];
    let mut all_snaps = snaps.clone();
    all_snaps.push((u32::MAX, finv, fret, final_snap.clone()));
    for (id, inv, ret, s) in &all_snaps {
        let name = if *id == u32::MAX { "snapshot after quiescence".to_string() } else { format!("collect op {}", id) };
        // --- one consistent cut
        let set = match f2u(unsign(s.sum)) {
            Some(u) if u & !all_bits == 0 => u,
            _ => {
                out.violations.push(Violation::new(&cls("cut"), cls("cut"), format!("{}: sample_sum {} is not the sum of a set of issued observations", name, s.sum)));
                continue;
            }
        };
        if s.count != set.count_ones() as u64 {
            out.violations.push(Violation::new(&cls("cut"), cls("cut"), format!("{}: sample_count {} but sample_sum {} describes {} observations", name, s.count, s.sum, set.count_ones())));
        }
        if s.buckets.len() != bounds.len() || s.buckets.iter().zip(&bounds).any(|(b, w)| b.0 != *w) {
            out.violations.push(Violation::new(&cls("cut"), cls("cut"), format!("{}: bucket bounds {:?} differ from the configured {:?}", name, s.buckets, bounds)));
        } else {
            for (ub, cc) in &s.buckets {
                let want = (0..64).filter(|k| set & (1u64 << k) != 0 && val_of(neg, *k as u8) <= *ub).count() as u64;
                if *cc != want {
                    out.violations.push(Violation::new(&cls("cut"), cls("cut"), format!("{}: bucket le={} has cumulative count {} but {} of the observations in the sum are <= that bound", name, ub, cc, want)));
                }
            }
        }
        // --- which observations
        for ob in &obs {
            let inc = set & ob.bits;
            if inc != 0 && inc != ob.bits {
                out.violations.push(Violation::new(&cls("batch"), cls("batch"), format!("{}: flushed batch (op {}) appears partially", name, ob.id)));
            }
            if inc != 0 && ob.inv > *ret {
                out.violations.push(Violation::new(&cls("window"), cls("window"), format!("{}: contains observation op {} that started after the collection returned", name, ob.id)));
            }
            if inc == 0 && ob.ret < *inv {
                out.violations.push(Violation::new(&cls("window"), cls("window"), format!("{}: misses observation op {} that completed before the collection started", name, ob.id)));
            }
        }
        // --- per-thread prefix
        let mut by_thread: BTreeMap<usize, Vec<&Obs>> = BTreeMap::new();
        for ob in &obs {
            by_thread.entry(ob.thread).or_default().push(ob);
        }
        for (t, v) in by_thread.iter_mut() {
            v.sort_by_key(|o| o.pos);
            let mut missing = false;
            for ob in v.iter() {
                let inc = set & ob.bits != 0;
                if inc && missing {
                    out.violations.push(Violation::new(&cls("prefix"), cls("prefix"), format!("{}: contains thread {}'s observation op {} without an earlier one of the same thread", name, t, ob.id)));
                }
                if !inc {
                    missing = true;
                }
            }
        }
        sets.push((*id, *inv, *ret, set));
    }
    // --- C03: growing sets, completeness at quiescence, getters
    for a in &sets {
        for b in &sets {
            if a.2 < b.1 && a.3 & !b.3 != 0 {
                out.violations.push(Violation::new(&cls("growing"), cls("growing"), format!("snapshot {} precedes snapshot {} but contains observations {:#x} that the later one lacks", a.0 as i64, b.0 as i64, a.3 & !b.3)));
            }
        }
    }
    if let Some(last) = sets.iter().find(|s| s.0 == u32::MAX) {
        if last.3 != all_bits {
            out.violations.push(Violation::new(&cls("final"), cls("final"), format!("after all threads finished the snapshot describes {:#x} but the observations issued are {:#x}", last.3, all_bits)));
        }
        let c = final_count;
        let s = final_sum;
        if c != final_snap.count || s != final_snap.sum {
            out.violations.push(Violation::new(&cls("getters"), cls("getters"), format!("after quiescence get_sample_count/get_sample_sum = {}/{} but the snapshot has {}/{}", c, s, final_snap.count, final_snap.sum)));
        }
    }
    for (id, inv, ret, g) in &getters {
        let started: u64 = obs.iter().filter(|o| o.inv < *ret).map(|o| o.bits.count_ones() as u64).sum();
        let completed: u64 = obs.iter().filter(|o| o.ret < *inv).map(|o| o.bits.count_ones() as u64).sum();
        match g {
            HRes::Count(c) => {
                if *c > started || *c < completed {
                    out.violations.push(Violation::new(&cls("getters"), cls("getters"), format!("get_sample_count op {} = {} but {} observations had completed before it and only {} had started when it returned", id, c, completed, started)));
                }
            }
            HRes::Sum(s) => match f2u(unsign(*s)) {
                Some(u) if u & !all_bits == 0 => {
                    for ob in &obs {
                        if u & ob.bits != 0 && ob.inv > *ret {
                            out.violations.push(Violation::new(&cls("getters"), cls("getters"), format!("get_sample_sum op {} contains observation op {} that had not started", id, ob.id)));
                        }
                        if u & ob.bits == 0 && ob.ret < *inv {
                            out.violations.push(Violation::new(&cls("getters"), cls("getters"), format!("get_sample_sum op {} = {} misses observation op {} that had completed", id, s, ob.id)));
                        }
                    }
                }
                _ => out.violations.push(Violation::new(&cls("getters"), cls("getters"), format!("get_sample_sum op {} = {} is not a sum of issued observations", id, s))),
            },
            _ => {}
        }
    }
    // --- C03 progress (c): what did a waiting collector wait for?
    // A collector that failed a genuine CAS on a cell and later succeeded on the same cell waited
    // for every modification of that cell by other threads in between.
    let mut cur_op: BTreeMap<u8, u32> = BTreeMap::new();
    let mut waiting: BTreeMap<u8, (u32, u32)> = BTreeMap::new(); // thread -> (loc, collect op id)
    let mut waited = 0u64;
    for e in res.log.iter() {
        match e {
            Ev::Api { t, op, phase } => {
                if *phase == crate::engine::Phase::Invoke {
                    cur_op.insert(*t, *op);
                } else {
                    cur_op.remove(t);
                    waiting.remove(t);
                }
            }
            Ev::Op { t, kind: OpKind::CasWeak | OpKind::Cas, loc, ok, spurious, .. } => {
                if let Some(op) = cur_op.get(t) {
                    let is_collect = *op == FINAL_OP || matches!(plan.threads[op_thread(*op)][*op as usize % 1000], HOp::Collect(_));
                    if is_collect {
                        if !*ok && !*spurious {
                            waiting.entry(*t).or_insert((*loc, *op));
                        } else if *ok {
                            waiting.remove(t);
                        }
                    }
                }
            }
            Ev::Op { t, kind: OpKind::FetchAdd | OpKind::Store | OpKind::Swap, loc, .. } => {
                for (wt, (wl, cop)) in waiting.iter() {
                    if wt != t && wl == loc {
                        waited += 1;
                        if let Some(x) = cur_op.get(t) {
                            if let Some(ob) = obs.iter().find(|o| o.id == *x) {
                                let c_inv = iv[cop].0;
                                let cop_key = if *cop == FINAL_OP { u32::MAX } else { *cop };
                                // (a batch split by a clone has two entries under one op id)
                                let op_bits = obs.iter().filter(|o| o.id == *x).fold(0u64, |a, o| a | o.bits);
                                let in_s = sets.iter().find(|s| s.0 == cop_key).map(|s| s.3 & op_bits != 0).unwrap_or(true);
                                if ob.inv > c_inv && !in_s {
                                    out.violations.push(Violation::new(&cls("waits"), cls("waits"), format!("collect op {} waited for observation op {}, which started after the collect and is not part of its snapshot", cop, ob.id)));
                                }
                            }
                        }
                    }
                }
            }
            _ => {}
        }
    }
    let ncollect = snaps.len() as u64;
    out.probes.push(("collector_waited_for_observer", waited));
    out.probes.push(("runs_with_3plus_collects", (ncollect >= 3) as u64));
    out.probes.push(("hb_checked_runs", plan.env.hb as u64));
    out
}

fn shrink_plan(plan: &Value) -> Vec<Value> {
    let p: HistPlan = serde_json::from_value(plan.clone()).unwrap();
    let mut c = shrink_threads(&p.threads).into_iter().map(|t| HistPlan { threads: t, ..p.clone() }).collect::<Vec<_>>();
    for e in shrink_env(&p.env) {
        c.push(HistPlan { env: e, ..p.clone() });
    }
    if p.container != Container::Plain {
        let threads = p.threads.iter().map(|t| t.iter().map(|o| if let HOp::Collect(_) = o { HOp::Collect(Via::Metric) } else { o.clone() }).collect()).collect();
        c.push(HistPlan { container: Container::Plain, threads, ..p.clone() });
    }
    if p.bound_exps.len() > 1 {
        for i in 0..p.bound_exps.len() {
            let mut b = p.bound_exps.clone();
            b.remove(i);
            c.push(HistPlan { bound_exps: b, ..p.clone() });
        }
    }
    // split batches into single observations
    for t in 0..p.threads.len() {
        for i in 0..p.threads[t].len() {
            if let HOp::LocalBatch { ks, .. } = &p.threads[t][i] {
                let mut n = p.threads.clone();
                n[t][i] = HOp::Observe(ks[0]);
                c.push(HistPlan { threads: n, ..p.clone() });
            }
        }
    }
    c.into_iter().map(|p| serde_json::to_value(p).unwrap()).collect()
}

const REAL: &[&str] = &["prometheus::{Histogram,HistogramVec,LocalHistogram,Registry} (all code)", "std atomics, std Mutex, parking_lot RwLock underneath the shim"];
const STUB: &[&str] = &["thread scheduling (baton)", "lock arbitration", "spurious CAS failure", "stalls", "OS randomness for hash seeds"];

pub struct C02;
impl Scenario for C02 {
    fn id(&self) -> &'static str {
        "C02"
    }
    fn name(&self) -> &'static str {
        "histogram-cut"
    }
    fn runs(&self, tier: Tier) -> u64 {
        match tier {
            Tier::Quick => 150_000,
            Tier::Thorough => 4_000_000,
        }
    }
    fn gen(&self, seed: u64, _tier: Tier) -> Value {
        serde_json::to_value(gen_plan(seed, false)).unwrap()
    }
    fn run(&self, plan: &Value, mode: Mode) -> RunOut {
        let plan: HistPlan = serde_json::from_value(plan.clone()).expect("C02 plan");
        let hs = plan.env.hash_seed;
        isolated(hs, move || execute("C02", &plan, mode))
    }
    fn shrink(&self, plan: &Value) -> Vec<Value> {
        shrink_plan(plan)
    }
    fn info(&self) -> Info {
        Info {
            rule: "one run = one generated plan (1-3 observer threads issuing observe(2^k) / local batches, 1-2 collector threads taking 1-3 snapshots through Metric::metric, Collector::collect, HistogramVec::collect or Registry::gather; 1-4 buckets at powers of two) under one seeded schedule with vector-clock happens-before checking; non-trivial = API calls of different threads overlapped; distinct = distinct conflict signatures",
            assumptions: vec![
                "interleavings are sequentially consistent at shim-visible operations; the memory-model clause is covered by the happens-before obligation on histogram cells (DESIGN 3.5), not by executing weak behaviours",
                "observations are distinct powers of two so that a sum decodes to the exact set of observations",
            ],
            real: REAL.to_vec(),
            stubbed: STUB.to_vec(),
            expected_probes: vec!["cas_real_conflict", "api_calls_overlapping", "collector_waited_for_observer", "blocked_on_lock"],
        }
    }
}

pub struct C03;
impl Scenario for C03 {
    fn id(&self) -> &'static str {
        "C03"
    }
    fn name(&self) -> &'static str {
        "histogram-conservation"
    }
    fn runs(&self, tier: Tier) -> u64 {
        match tier {
            Tier::Quick => 120_000,
            Tier::Thorough => 3_000_000,
        }
    }
    fn gen(&self, seed: u64, _tier: Tier) -> Value {
        serde_json::to_value(gen_plan(seed, true)).unwrap()
    }
    fn run(&self, plan: &Value, mode: Mode) -> RunOut {
        let plan: HistPlan = serde_json::from_value(plan.clone()).expect("C03 plan");
        let hs = plan.env.hash_seed;
        isolated(hs, move || execute("C03", &plan, mode))
    }
    fn shrink(&self, plan: &Value) -> Vec<Value> {
        shrink_plan(plan)
    }
    fn info(&self) -> Info {
        Info {
            rule: "one run = one generated history with at least three collections (1-3 observer threads with direct observes and local batches, 1-2 collector threads, get_sample_count/get_sample_sum calls in between) under one seeded schedule; oracle: growing sets, batch atomicity, completeness at quiescence, getters, progress (never stuck; a waiting collector only waits for observations that end up in its snapshot or were started before it); non-trivial = API calls of different threads overlapped; distinct = distinct conflict signatures",
            assumptions: vec!["sequentially consistent interleavings at shim-visible operations", "a thread repeating an identical failed CAS is blocked until the cell changes (spin detection), so waiting costs no steps"],
            real: REAL.to_vec(),
            stubbed: STUB.to_vec(),
            expected_probes: vec!["cas_real_conflict", "api_calls_overlapping", "collector_waited_for_observer", "runs_with_3plus_collects"],
        }
    }
}
