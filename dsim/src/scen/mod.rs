pub mod alias;
pub mod hist;
pub mod registry;
pub mod value;
pub mod vecs;
