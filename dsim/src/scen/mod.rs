pub mod value;
