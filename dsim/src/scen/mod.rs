pub mod hist;
pub mod value;
