pub mod alias;
pub mod hist;
pub mod value;
pub mod vecs;
