pub mod alias;
pub mod descs;
pub mod encode;
pub mod gather;
pub mod hist;
pub mod registry;
pub mod value;
pub mod vecs;
