//! C20: registration macros are faithful shorthands for the explicit calls.
use crate::common::*;
use crate::compat::{self, PFamily};
use crate::driver::{Info, RunOut, Scenario, Tier, Violation};
use crate::engine::{Env, Mode, Outcome};
use crate::rng::Rng;
use prometheus::core::Collector;
use prometheus::*;
use serde::{Deserialize, Serialize};
use serde_json::Value;
use std::collections::HashMap;
use std::sync::{Arc, Mutex};

#[derive(Serialize, Deserialize, Clone, Debug, PartialEq)]
pub enum MKind {
    Counter,
    IntCounter,
    Gauge,
    IntGauge,
    Histogram,
    CounterVec,
    IntCounterVec,
    GaugeVec,
    IntGaugeVec,
    HistogramVec,
}
impl MKind {
    fn is_vec(&self) -> bool {
        matches!(self, MKind::CounterVec | MKind::IntCounterVec | MKind::GaugeVec | MKind::IntGaugeVec | MKind::HistogramVec)
    }
    fn is_hist(&self) -> bool {
        matches!(self, MKind::Histogram | MKind::HistogramVec)
    }
}
#[derive(Serialize, Deserialize, Clone, Debug, PartialEq)]
pub enum Form {
    /// an options value built with opts! / histogram_opts! (carries constant labels and buckets)
    Opts,
    NameHelp,
    NameHelpBuckets,
}
thread_local! {
    /// set by Args::opts when opts! evaluated its constant-label arguments another number of times
    /// than once each: (expected, counted)
    pub static ARG_EVALS_WRONG: std::cell::Cell<Option<(u32, u32)>> = std::cell::Cell::new(None);
}
#[derive(Serialize, Deserialize, Clone, Debug, PartialEq)]
pub struct Args {
    pub name: String,
    pub help: String,
    pub consts: Vec<(String, String)>,
    pub labels: Vec<String>,
    #[serde(with = "compat::fbits::list")]
    pub buckets: Vec<f64>,
    /// variable label names already set on the options value (vector kinds, options form): the vector
    /// constructor replaces them by the names given in the call, and so must the macro
    #[serde(default)]
    pub preset_vars: Vec<String>,
}
impl Args {
    /// opts!(name, help [, labels!{..}] [, labels!{..}])
    pub fn opts(&self) -> Opts {
        let c = &self.consts;
        // every argument expression of the macro is evaluated exactly once (counted here)
        let evals = std::cell::Cell::new(0u32);
        fn counted<'a>(evals: &std::cell::Cell<u32>, x: HashMap<&'a str, &'a str>) -> HashMap<&'a str, &'a str> {
            evals.set(evals.get() + 1);
            x
        }
        let once = |x| counted(&evals, x);
        let o = match c.len() {
            0 => opts!(self.name.clone(), self.help.clone()),
            1 => opts!(self.name.clone(), self.help.clone(), once(labels! { c[0].0.as_str() => c[0].1.as_str() }),),
            _ => opts!(self.name.clone(), self.help.clone(), once(labels! { c[0].0.as_str() => c[0].1.as_str(), }), once(labels! { c[1].0.as_str() => c[1].1.as_str() })),
        };
        if evals.get() != c.len().min(2) as u32 {
            ARG_EVALS_WRONG.with(|f| f.set(Some((c.len().min(2) as u32, evals.get()))));
        }
        self.preset_vars.iter().fold(o, |o, v| o.variable_label(v.clone()))
    }
    /// histogram_opts!(name, help [, buckets [, labels!{..}]])
    pub fn hopts(&self) -> HistogramOpts {
        let c = &self.consts;
        let o = match c.len() {
            0 if self.buckets == DEFAULT_BUCKETS.to_vec() => histogram_opts!(self.name.clone(), self.help.clone(),),
            0 => histogram_opts!(self.name.clone(), self.help.clone(), self.buckets.clone()),
            1 => histogram_opts!(self.name.clone(), self.help.clone(), self.buckets.clone(), labels! { c[0].0.clone() => c[0].1.clone() }),
            _ => histogram_opts!(self.name.clone(), self.help.clone(), self.buckets.clone(), labels! { c[0].0.clone() => c[0].1.clone(), c[1].0.clone() => c[1].1.clone(), },),
        };
        self.preset_vars.iter().fold(o, |o, v| o.variable_label(v.clone()))
    }
}

pub enum Handle {
    C(Counter),
    IC(IntCounter),
    G(Gauge),
    IG(IntGauge),
    H(Histogram),
    CV(CounterVec),
    ICV(IntCounterVec),
    GV(GaugeVec),
    IGV(IntGaugeVec),
    HV(HistogramVec),
}
impl Handle {
    fn collector(&self) -> Box<dyn Collector> {
        match self {
            Handle::C(x) => Box::new(x.clone()),
            Handle::IC(x) => Box::new(x.clone()),
            Handle::G(x) => Box::new(x.clone()),
            Handle::IG(x) => Box::new(x.clone()),
            Handle::H(x) => Box::new(x.clone()),
            Handle::CV(x) => Box::new(x.clone()),
            Handle::ICV(x) => Box::new(x.clone()),
            Handle::GV(x) => Box::new(x.clone()),
            Handle::IGV(x) => Box::new(x.clone()),
            Handle::HV(x) => Box::new(x.clone()),
        }
    }
    /// update through this handle so that the metric's sample carries `v`
    fn bump(&self, v: u32, nlabels: usize) {
        let vals: Vec<&str> = (0..nlabels).map(|_| "x").collect();
        match self {
            Handle::C(x) => x.inc_by(v as f64),
            Handle::IC(x) => x.inc_by(v as u64),
            Handle::G(x) => x.set(v as f64),
            Handle::IG(x) => x.set(v as i64),
            Handle::H(x) => x.observe(v as f64),
            Handle::CV(x) => x.with_label_values(&vals).inc_by(v as f64),
            Handle::ICV(x) => x.with_label_values(&vals).inc_by(v as u64),
            Handle::GV(x) => x.with_label_values(&vals).set(v as f64),
            Handle::IGV(x) => x.with_label_values(&vals).set(v as i64),
            Handle::HV(x) => x.with_label_values(&vals).observe(v as f64),
        }
    }
    /// (fq_name, help, constant pairs, variable labels) and the collected family
    fn view(&self) -> (String, String, Vec<(String, String)>, Vec<String>, Vec<PFamily>) {
        let c = self.collector();
        let d = c.desc()[0].clone();
        let consts = d.const_label_pairs.iter().map(|l| (l.name().to_string(), l.value().to_string())).collect();
        (d.fq_name, d.help, consts, d.variable_labels, compat::families_of(&c.collect()))
    }
}

/// the explicit constructor + register call the arm stands for
fn explicit(kind: &MKind, form: &Form, a: &Args, reg: &Registry) -> std::result::Result<Handle, String> {
    let mut consts = HashMap::new();
    if *form == Form::Opts {
        for (k, v) in &a.consts {
            consts.insert(k.clone(), v.clone());
        }
    }
    let mut opts = Opts::new(a.name.clone(), a.help.clone()).const_labels(consts);
    if *form == Form::Opts {
        opts = opts.variable_labels(a.preset_vars.clone());
    }
    let buckets = match form {
        Form::NameHelp => DEFAULT_BUCKETS.to_vec(),
        _ => a.buckets.clone(),
    };
    let hopts = HistogramOpts::from(opts.clone()).buckets(buckets);
    let names: Vec<&str> = a.labels.iter().map(|s| s.as_str()).collect();
    let e = |e: Error| e.to_string();
    let h = match kind {
        MKind::Counter => Handle::C(Counter::with_opts(opts).map_err(e)?),
        MKind::IntCounter => Handle::IC(IntCounter::with_opts(opts).map_err(e)?),
        MKind::Gauge => Handle::G(Gauge::with_opts(opts).map_err(e)?),
        MKind::IntGauge => Handle::IG(IntGauge::with_opts(opts).map_err(e)?),
        MKind::Histogram => Handle::H(Histogram::with_opts(hopts).map_err(e)?),
        MKind::CounterVec => Handle::CV(CounterVec::new(opts, &names).map_err(e)?),
        MKind::IntCounterVec => Handle::ICV(IntCounterVec::new(opts, &names).map_err(e)?),
        MKind::GaugeVec => Handle::GV(GaugeVec::new(opts, &names).map_err(e)?),
        MKind::IntGaugeVec => Handle::IGV(IntGaugeVec::new(opts, &names).map_err(e)?),
        MKind::HistogramVec => Handle::HV(HistogramVec::new(hopts, &names).map_err(e)?),
    };
    reg.register(h.collector()).map_err(e)?;
    Ok(h)
}

#[derive(Serialize, Deserialize, Clone, Debug, PartialEq)]
pub struct MacroCall {
    pub kind: MKind,
    pub form: Form,
    pub with_registry: bool,
    pub trailing: bool,
    pub args: Args,
    /// issue the same call a second time (must be refused)
    pub again: bool,
    pub bump: u32,
}
#[derive(Serialize, Deserialize, Clone, Debug)]
pub struct MacroPlan {
    pub env: Env,
    pub prefix: Option<String>,
    pub common: Vec<(String, String)>,
    pub threads: Vec<Vec<MacroCall>>,
    pub tag: u64,
}

fn gen_plan(seed: u64) -> MacroPlan {
    let mut r = Rng::new(seed, 1);
    let nthreads = if r.chance(70) { 1 } else { 2 };
    let tag = r.next() >> 16;
    let kinds = [MKind::Counter, MKind::IntCounter, MKind::Gauge, MKind::IntGauge, MKind::Histogram, MKind::CounterVec, MKind::IntCounterVec, MKind::GaugeVec, MKind::IntGaugeVec, MKind::HistogramVec];
    let mut k = 0;
    let mut threads = vec![];
    for t in 0..nthreads {
        let n = 1 + r.below(4) as usize;
        let mut calls = vec![];
        for _ in 0..n {
            let kind = r.pick(&kinds).clone();
            let form = if kind.is_hist() { r.pick(&[Form::Opts, Form::NameHelp, Form::NameHelpBuckets]).clone() } else { r.pick(&[Form::Opts, Form::NameHelp]).clone() };
            let nconst = if form == Form::Opts { r.below(3) as usize } else { 0 };
            // with two maps the second may repeat the first one's key: the later value wins, exactly as
            // in the explicit `const_labels(first.extend(second))`
            let consts: Vec<(String, String)> = if nconst == 2 && r.chance(40) {
                vec![("ck".to_string(), "cv".to_string()), ("ck".to_string(), "later".to_string())]
            } else {
                // (an empty value is a value: the explicit constructors keep it)
                let second = if r.chance(25) { ("dk", "") } else { ("dk", "d v") };
                let first = if r.chance(15) { ("ck", "") } else { ("ck", "cv") };
                [first, second][..nconst].iter().map(|(a, b)| (a.to_string(), b.to_string())).collect()
            };
            // (an empty label-name list is legal for the explicit constructors, so it is for the macros)
            let nlab = if r.chance(12) { 0 } else { 1 + r.below(2) as usize };
            let labels: Vec<String> = if kind.is_vec() { ["l1", "l2"][..nlab].iter().map(|s| s.to_string()).collect() } else { vec![] };
            let buckets = match r.below(6) {
                0 | 1 => DEFAULT_BUCKETS.to_vec(),
                2 => vec![0.5, 2.0, 8.0],
                3 => vec![1.0],
                // a trailing +Inf is legal (it is dropped by the constructor); a list of only +Inf
                // leaves a histogram without finite buckets
                4 => vec![f64::INFINITY],
                _ => vec![0.25, f64::INFINITY],
            };
            let preset_vars: Vec<String> = if kind.is_vec() && form == Form::Opts && r.chance(20) {
                match r.below(3) {
                    0 => vec!["zz_preset".to_string()],
                    1 => vec!["l1".to_string()],
                    _ => vec!["zz_a".to_string(), "zz_b".to_string()],
                }
            } else {
                vec![]
            };
            k += 1;
            calls.push(MacroCall {
                kind,
                form,
                with_registry: r.chance(50),
                trailing: r.chance(50),
                args: Args { name: format!("c20_{:x}_{}_{}", tag, t, k), help: r.pick(&["help", "h é \"q\"", "help", " padded ", "tail\n", "\thead", "  "]).to_string(), consts, labels, buckets, preset_vars },
                again: r.chance(30),
                bump: 1 + r.below(100) as u32,
            });
        }
        threads.push(calls);
    }
    let prefix = if r.chance(35) { Some("pfx".to_string()) } else { None };
    let common = if r.chance(35) { vec![("zone".to_string(), "z1".to_string())] } else { vec![] };
    let env = Env::swarm(&mut r, nthreads, 200, false);
    MacroPlan { env, prefix, common, threads, tag }
}

fn find<'a>(fams: &'a [PFamily], name: &str) -> Option<&'a PFamily> {
    fams.iter().find(|f| f.name.as_deref() == Some(name))
}

fn execute(plan: &MacroPlan, mode: Mode) -> RunOut {
    let sim = new_sim(&plan.env, mode);
    let viol: Arc<Mutex<Vec<Violation>>> = Arc::new(Mutex::new(vec![]));
    let stats: Arc<Mutex<(u64, u64, u64)>> = Arc::new(Mutex::new((0, 0, 0)));
    let mut labels = HashMap::new();
    for (a, b) in &plan.common {
        labels.insert(a.clone(), b.clone());
    }
    let mk_reg = || Registry::new_custom(plan.prefix.clone(), if plan.common.is_empty() { None } else { Some(labels.clone()) }).unwrap();
    let named = mk_reg(); // the registry named in *_with_registry calls
    let keep = Keep::new();
    for (t, calls) in plan.threads.iter().enumerate() {
        let calls = calls.clone();
        let named = named.clone();
        let viol = viol.clone();
        let stats = stats.clone();
        let keep = keep.clone();
        let (prefix, common) = (plan.prefix.clone(), plan.common.clone());
        sim.spawn(&format!("sim{}", t), false, move |ctx| {
            let mut v: Vec<Violation> = vec![];
            let mut to_unregister: Vec<Box<dyn Collector>> = vec![];
            for (i, c) in calls.iter().enumerate() {
                ctx.invoke(op_id(t, i));
                let arm = format!("register_{:?}{}!({:?}{})", c.kind, if c.with_registry { "_with_registry" } else { "" }, c.form, if c.trailing { ", trailing comma" } else { "" });
                ARG_EVALS_WRONG.with(|f| f.set(None));
                let r = crate::seams::catch(|| super::macro_arms::invoke(&c.kind, &c.form, c.with_registry, c.trailing, &c.args, &named));
                if let Some((want, got)) = ARG_EVALS_WRONG.with(|f| f.take()) {
                    v.push(Violation::new("C20/arguments", "C20/argument-evaluated-twice", format!("{}: opts! evaluated its {} constant-label argument expression(s) {} times in total (an explicit call evaluates each once)", arm, want, got)));
                }
                stats.lock().unwrap().0 += 1;
                // the explicit twin goes to a registry of its own with the same configuration
                let twin_reg = if c.with_registry {
                    let mut l = HashMap::new();
                    for (a, b) in &common {
                        l.insert(a.clone(), b.clone());
                    }
                    Registry::new_custom(prefix.clone(), if common.is_empty() { None } else { Some(l) }).unwrap()
                } else {
                    Registry::new()
                };
                let twin = explicit(&c.kind, &c.form, &c.args, &twin_reg);
                match (r, twin) {
                    (Err(p), _) => v.push(Violation::new("C20/panic", "C20/panic", format!("{} panicked: {}", arm, p))),
                    (Ok(Err(e)), Ok(_)) => v.push(Violation::new("C20/result", "C20/result", format!("{} evaluated to Err({}) although the explicit call succeeds", arm, e))),
                    (Ok(Ok(_)), Err(e)) => v.push(Violation::new("C20/result", "C20/result", format!("{} succeeded although the explicit call fails: {}", arm, e))),
                    (Ok(Err(_)), Err(_)) => {}
                    (Ok(Ok(h)), Ok(tw)) => {
                        let nl = c.args.labels.len();
                        h.bump(c.bump, nl);
                        tw.bump(c.bump, nl);
                        let (n1, h1, c1, v1, f1) = h.view();
                        let (n2, h2, c2, v2, f2) = tw.view();
                        if (&n1, &h1, &c1, &v1) != (&n2, &h2, &c2, &v2) {
                            v.push(Violation::new("C20/desc", "C20/desc", format!("{} created {:?}/{:?}/{:?}/{:?}, the explicit call creates {:?}/{:?}/{:?}/{:?}", arm, n1, h1, c1, v1, n2, h2, c2, v2)));
                        }
                        if f1 != f2 {
                            v.push(Violation::new("C20/metric", "C20/metric", format!("{}: the created metric collects as {:?}, the explicit one as {:?} (buckets / labels / value differ)", arm, f1, f2)));
                        }
                        // registered where the call says, and the handle is the registered metric itself
                        let target = if c.with_registry { compat::families_of(&named.gather()) } else { compat::families_of(&prometheus::gather()) };
                        let other = if c.with_registry { compat::families_of(&prometheus::gather()) } else { compat::families_of(&named.gather()) };
                        let exp = compat::families_of(&twin_reg.gather());
                        let gname = match (&prefix, c.with_registry) {
                            (Some(p), true) => format!("{}_{}", p, n1),
                            _ => n1.clone(),
                        };
                        match (find(&target, &gname), find(&exp, &gname)) {
                            (Some(a), Some(b)) => {
                                if a != b {
                                    v.push(Violation::new("C20/registered", "C20/registered", format!("{}: the registry named in the call gathers {:?}, the explicit twin's registry gathers {:?} (an update through the returned handle must be visible)", arm, a, b)));
                                }
                            }
                            (None, _) => v.push(Violation::new("C20/registered", "C20/registered", format!("{}: metric {:?} is not gathered from the registry the call names ({})", arm, gname, if c.with_registry { "explicit registry" } else { "default registry" }))),
                            _ => {}
                        }
                        let leaked = find(&other, &n1).is_some() || find(&other, &gname).is_some();
                        if leaked {
                            v.push(Violation::new("C20/registered", "C20/wrong-registry", format!("{}: metric {:?} also appears in the registry the call does not name", arm, n1)));
                        }
                        stats.lock().unwrap().1 += 1;
                        if c.again {
                            // the same call once more: refused by the registry, must evaluate to Err
                            let r2 = crate::seams::catch(|| super::macro_arms::invoke(&c.kind, &c.form, c.with_registry, c.trailing, &c.args, &named));
                            stats.lock().unwrap().2 += 1;
                            match r2 {
                                Err(p) => v.push(Violation::new("C20/panic", "C20/panic", format!("{} (second time) panicked: {}", arm, p))),
                                Ok(Ok(_)) => v.push(Violation::new("C20/result", "C20/refusal", format!("{} succeeded a second time although the registration must be refused", arm))),
                                Ok(Err(_)) => {}
                            }
                            // a refused call leaves the registry as it was: the first metric is still
                            // gathered, with its value, and a third call is refused as well
                            let after = if c.with_registry { compat::families_of(&named.gather()) } else { compat::families_of(&prometheus::gather()) };
                            match (find(&after, &gname), find(&exp, &gname)) {
                                (Some(a), Some(b)) if a == b => {}
                                (a, _) => v.push(Violation::new("C20/registered", "C20/refused-call-changed-registry", format!("{}: after a second, refused call the registry gathers {:?} for {:?}; the metric registered by the first call must still be there unchanged", arm, a.map(|f| &f.metrics), gname))),
                            }
                            let r3 = crate::seams::catch(|| super::macro_arms::invoke(&c.kind, &c.form, c.with_registry, c.trailing, &c.args, &named));
                            if let Ok(Ok(h3)) = r3 {
                                v.push(Violation::new("C20/result", "C20/refusal", format!("{} succeeded on a third call although an equal metric is registered", arm)));
                                if !c.with_registry {
                                    to_unregister.push(h3.collector());
                                }
                            }
                        }
                        if !c.with_registry {
                            to_unregister.push(h.collector());
                        }
                        keep.push(h.collector());
                        keep.push(tw.collector());
                    }
                }
                keep.push(twin_reg);
                ctx.ret(op_id(t, i));
            }
            // leave the process-global default registry as we found it
            for c in to_unregister {
                let _ = prometheus::unregister(c);
            }
            viol.lock().unwrap().extend(v);
        });
    }
    let res = sim.run();
    keep.push(named);
    drop(keep);
    let mut out = base_out(&plan.env, &res);
    out.nontrivial = true;
    for (t, p) in &res.panics {
        out.violations.push(Violation::new("C20/panic", "C20/panic", format!("thread {} panicked: {}", t, p)));
    }
    if res.outcome == Outcome::Stuck {
        out.violations.push(Violation::new("C20/stuck", "C20/stuck", "no thread can make progress".to_string()));
    }
    out.violations.extend(viol.lock().unwrap().drain(..));
    let mut fp = crate::rng::Fp::default();
    for c in plan.threads.iter().flatten() {
        fp.str(&format!("{:?}{:?}{}{}{}{}{:?}", c.kind, c.form, c.with_registry, c.trailing, c.args.consts.len(), c.args.labels.len(), c.args.buckets));
    }
    fp.str(&format!("{:?}{:?}", plan.prefix, plan.common));
    out.signature = fp.0;
    // fingerprints must not depend on the per-run tag in metric names: hash the shape only
    out.fingerprint = crate::rng::mix2(out.fingerprint, fp.0);
    let st = stats.lock().unwrap();
    out.probes.push(("macro_calls", st.0));
    out.probes.push(("compared_with_explicit_twin", st.1));
    out.probes.push(("refused_second_registration", st.2));
    out.probes.push(("default_registry_calls", plan.threads.iter().flatten().filter(|c| !c.with_registry).count() as u64));
    out
}

pub struct C20;
impl Scenario for C20 {
    fn id(&self) -> &'static str {
        "C20"
    }
    fn name(&self) -> &'static str {
        "macros"
    }
    fn runs(&self, tier: Tier) -> u64 {
        match tier {
            Tier::Quick => 60_000,
            Tier::Thorough => 1_500_000,
        }
    }
    fn gen(&self, seed: u64, _tier: Tier) -> Value {
        serde_json::to_value(gen_plan(seed)).unwrap()
    }
    fn run(&self, plan: &Value, mode: Mode) -> RunOut {
        let plan: MacroPlan = serde_json::from_value(plan.clone()).expect("C20 plan");
        let hs = plan.env.hash_seed;
        isolated(hs, move || execute(&plan, mode))
    }
    fn shrink(&self, plan: &Value) -> Vec<Value> {
        let p: MacroPlan = serde_json::from_value(plan.clone()).unwrap();
        let mut c = vec![];
        for t in 0..p.threads.len() {
            for i in 0..p.threads[t].len() {
                let mut n = p.clone();
                n.threads[t].remove(i);
                if n.threads.iter().any(|x| !x.is_empty()) {
                    n.threads.retain(|x| !x.is_empty());
                    c.push(n);
                }
                if p.threads[t][i].again {
                    let mut n = p.clone();
                    n.threads[t][i].again = false;
                    c.push(n);
                }
                if p.threads[t][i].trailing {
                    let mut n = p.clone();
                    n.threads[t][i].trailing = false;
                    c.push(n);
                }
            }
        }
        if p.prefix.is_some() {
            let mut n = p.clone();
            n.prefix = None;
            c.push(n);
        }
        if !p.common.is_empty() {
            let mut n = p.clone();
            n.common.clear();
            c.push(n);
        }
        c.into_iter().map(|p| serde_json::to_value(p).unwrap()).collect()
    }
    fn info(&self) -> Info {
        Info {
            rule: "one run = 1-4 invocations (on 1-2 simulated threads) of arms of register_*! / register_*_with_registry! (all 88 arms: 10 metric kinds x options value / name+help / name+help+buckets x default or named registry x with/without trailing comma) whose options values are built with opts!, histogram_opts! and labels!; each is compared with its explicit constructor + register twin: descriptor, collected family (buckets, labels), presence in the registry named by the call (default or a registry with random prefix/common labels) and absence from the other one, an update through the returned handle visible in that registry's gather(), Err on a repeated registration; names are unique per run and the process-global default registry is restored; every run is non-trivial; distinct = distinct (arm, argument shape) lists",
            assumptions: vec!["group C: the arms are deterministic code; the simulator contributes the shared default registry under 1-2 threads and the histories that make refusals happen", "arguments are valid (the macros unwrap constructor errors by design)"],
            real: vec!["every arm of labels!, opts!, histogram_opts!, register_*!, register_*_with_registry!", "default registry, Registry"],
            stubbed: vec!["thread scheduling", "OS randomness (hash seeds)"],
            expected_probes: vec!["macro_calls", "compared_with_explicit_twin", "refused_second_registration", "default_registry_calls"],
        }
    }
}
