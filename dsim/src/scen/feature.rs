//! C16: exposition does not depend on the protobuf feature. The same plan is executed in this
//! (default-feature) build and, through a pipe, in a second binary built with
//! --no-default-features; both under two hash seeds as a within-build control.
use crate::common::*;
use crate::driver::{Info, RunOut, Scenario, Tier, Violation};
use crate::engine::Mode;
use crate::rng::Rng;
use crate::scen::gather::{gen_plan, run_replicas, shrink_gather, GatherPlan};
use serde::{Deserialize, Serialize};
use serde_json::Value;
use std::io::{BufRead, BufReader, Write};
use std::process::{Child, ChildStdin, ChildStdout, Command, Stdio};
use std::sync::Mutex;

#[derive(Serialize, Deserialize, Clone, Debug)]
pub struct Dump {
    pub typed: Vec<String>,
    pub text: Vec<String>,
    pub errors: Vec<String>,
}

/// Execute the plan in this build: one dump per hash seed (registration order is the same for both).
pub fn local_dump(plan: &GatherPlan) -> Dump {
    let hs = plan.env.hash_seed;
    let p = plan.clone();
    isolated(hs, move || {
        let (res, reps) = run_replicas(&p, Mode::Fresh(1));
        let mut d = Dump { typed: vec![], text: vec![], errors: vec![] };
        for (t, pn) in &res.panics {
            d.errors.push(format!("thread {} panicked: {}", t, pn));
        }
        for r in reps.into_iter() {
            match r {
                Some(r) => {
                    d.typed.push(r.typed);
                    d.text.push(r.text);
                    d.errors.extend(r.errors);
                }
                None => d.errors.push("replica did not finish".into()),
            }
        }
        d
    })
}

/// `dsim serve16`: read plans (one JSON per line) from stdin, answer with a Dump per line.
pub fn serve() {
    let stdin = std::io::stdin();
    let stdout = std::io::stdout();
    for line in stdin.lock().lines() {
        let line = match line {
            Ok(l) => l,
            Err(_) => break,
        };
        if line.trim().is_empty() {
            continue;
        }
        let plan: GatherPlan = match serde_json::from_str(&line) {
            Ok(p) => p,
            Err(e) => {
                let mut o = stdout.lock();
                let _ = writeln!(o, "{}", serde_json::to_string(&Dump { typed: vec![], text: vec![], errors: vec![format!("bad plan: {}", e)] }).unwrap());
                let _ = o.flush();
                continue;
            }
        };
        let d = local_dump(&plan);
        let mut o = stdout.lock();
        let _ = writeln!(o, "{}", serde_json::to_string(&d).unwrap());
        let _ = o.flush();
    }
}

struct Peer {
    _child: Child,
    stdin: ChildStdin,
    stdout: BufReader<ChildStdout>,
}
static PEER: Mutex<Option<Peer>> = Mutex::new(None);

fn nopb_bin() -> std::path::PathBuf {
    if let Ok(p) = std::env::var("VERIF_NOPB_BIN") {
        return p.into();
    }
    let exe = std::env::current_exe().unwrap();
    // <dsim>/target/release/dsim -> <dsim>/target-nopb/release/dsim
    exe.parent().and_then(|p| p.parent()).and_then(|p| p.parent()).map(|p| p.join("target-nopb/release/dsim")).unwrap_or_default()
}

fn remote_dump(plan: &GatherPlan) -> Result<Dump, String> {
    let mut g = PEER.lock().unwrap();
    if g.is_none() {
        let bin = nopb_bin();
        let mut child = Command::new(&bin).arg("serve16").stdin(Stdio::piped()).stdout(Stdio::piped()).spawn().map_err(|e| format!("cannot start {}: {}", bin.display(), e))?;
        let stdin = child.stdin.take().unwrap();
        let stdout = BufReader::new(child.stdout.take().unwrap());
        *g = Some(Peer { _child: child, stdin, stdout });
    }
    let p = g.as_mut().unwrap();
    writeln!(p.stdin, "{}", serde_json::to_string(plan).unwrap()).map_err(|e| e.to_string())?;
    p.stdin.flush().map_err(|e| e.to_string())?;
    let mut line = String::new();
    p.stdout.read_line(&mut line).map_err(|e| e.to_string())?;
    if line.is_empty() {
        *g = None;
        return Err("the --no-default-features binary closed the pipe (crashed?)".into());
    }
    serde_json::from_str(&line).map_err(|e| format!("bad answer: {}", e))
}

fn gen(seed: u64) -> GatherPlan {
    let mut r = Rng::new(seed, 77);
    let mut p = gen_plan(seed, r.chance(30));
    // two replicas: same registration order, two hash seeds
    p.orders.truncate(1);
    p.orders.push(p.orders[0].clone());
    p.hash_seeds.truncate(2);
    p.concurrent_gather = false;
    // a custom collector next to the library's metrics
    if r.chance(50) {
        let mut fams = crate::scen::encode::gen_families(&mut r, &[crate::compat::PType::Counter, crate::compat::PType::Gauge, crate::compat::PType::Histogram, crate::compat::PType::Summary]);
        for (i, f) in fams.iter_mut().enumerate() {
            f.name = Some(format!("cust_{}", i));
            f.help = Some("custom".into());
        }
        p.custom = fams;
        p.custom_type_unset = r.chance(30);
        p.custom_extra_values = r.chance(30);
    }
    // every f64 class in float-valued scalars: zero, negative zero, NaN, infinities, subnormal
    for m in p.metrics.iter_mut() {
        if matches!(m.kind, crate::scen::gather::MK::Gauge | crate::scen::gather::MK::Pulling | crate::scen::gather::MK::Counter) && r.chance(45) {
            let v = *r.pick(&[0.0, -0.0, f64::NAN, f64::INFINITY, f64::NEG_INFINITY, 5e-324, 1.5, -2.25, 1e21, 0.1]);
            m.special = Some(crate::compat::fbits::enc(v));
        }
    }
    p
}

fn execute(plan: &GatherPlan) -> RunOut {
    let mut out = RunOut::default();
    out.nontrivial = plan.metrics.len() >= 2;
    let mut fp = crate::rng::Fp::default();
    fp.str(&serde_json::to_string(&(&plan.metrics, &plan.prefix, &plan.common, &plan.orders)).unwrap());
    out.signature = fp.0;
    if !cfg!(feature = "pb") {
        return out;
    }
    let a = local_dump(plan);
    let b = match remote_dump(plan) {
        Ok(b) => b,
        Err(e) => {
            eprintln!("HARNESS-ERROR C16: {}", e);
            std::process::exit(2);
        }
    };
    let mut f2 = crate::rng::Fp::default();
    for s in a.typed.iter().chain(a.text.iter()).chain(b.typed.iter()).chain(b.text.iter()) {
        f2.str(s);
    }
    out.fingerprint = f2.0;
    let stable = |d: &Dump| d.typed.len() == 2 && d.typed[0] == d.typed[1] && d.text[0] == d.text[1];
    if a.errors != b.errors {
        out.violations.push(Violation::new("C16/calls", "C16/calls", format!("the same calls fail differently: default build {:?}, --no-default-features {:?}", a.errors, b.errors)));
    }
    if !stable(&a) || !stable(&b) {
        // a difference inside one build is a hash-order dependence (C07/C14 territory), not attributable to the feature
        out.probes.push(("not_attributable_hash_order_dependence", 1));
        return out;
    }
    if a.typed[0] != b.typed[0] {
        let (la, lb) = first_diff(&a.typed[0], &b.typed[0]);
        out.violations.push(Violation::new("C16/structure", "C16/structure", format!("gather() differs between the builds: default {:?} vs --no-default-features {:?}", la, lb)));
    }
    if a.text[0] != b.text[0] {
        let (la, lb) = first_diff(&a.text[0], &b.text[0]);
        out.violations.push(Violation::new("C16/text", "C16/text", format!("TextEncoder output differs between the builds: default {:?} vs --no-default-features {:?}", la, lb)));
    }
    out.probes.push(("compared_scenarios", 1));
    out
}

fn first_diff(a: &str, b: &str) -> (String, String) {
    for (x, y) in a.lines().zip(b.lines()) {
        if x != y {
            return (x.to_string(), y.to_string());
        }
    }
    (format!("{} lines", a.lines().count()), format!("{} lines", b.lines().count()))
}

pub struct C16;
impl Scenario for C16 {
    fn id(&self) -> &'static str {
        "C16"
    }
    fn name(&self) -> &'static str {
        "feature-independence"
    }
    fn runs(&self, tier: Tier) -> u64 {
        match tier {
            Tier::Quick => 30_000,
            Tier::Thorough => 800_000,
        }
    }
    fn gen(&self, seed: u64, _tier: Tier) -> Value {
        serde_json::to_value(gen(seed)).unwrap()
    }
    fn run(&self, plan: &Value, _mode: Mode) -> RunOut {
        let plan: GatherPlan = serde_json::from_value(plan.clone()).expect("C16 plan");
        execute(&plan)
    }
    fn shrink(&self, plan: &Value) -> Vec<Value> {
        shrink_gather(plan).into_iter().filter(|p| p["orders"].as_array().map(|a| a.len() == 2).unwrap_or(false)).collect()
    }
    fn info(&self) -> Info {
        Info {
            rule: "one scenario = one generated registry content (counters, gauges, histograms, pulling gauges, vectors with children, same-name collectors, 30% with mixed kinds; optional prefix and common labels) built, updated, registered and gathered by the same code in two binaries compiled from /repo's working tree: default features (protobuf-backed model) and --no-default-features (plain model), each under two hash seeds; gather() is rendered through the typed accessors and compared together with the TextEncoder bytes; a difference inside one build is counted as not attributable; non-trivial = >=2 collectors; distinct = distinct contents",
            assumptions: vec!["the two builds draw different numbers of RandomStates, so equal seeds do not give equal map orders: differences are attributed to the feature only when each build agrees with itself under two hash seeds", "values are compared as the family's typed accessor returns them (payload presence exists only in the protobuf model)"],
            real: vec!["prometheus built twice from the same sources (default / --no-default-features): metric types, Registry::gather, TextEncoder"],
            stubbed: vec!["OS randomness (hash seeds)", "thread scheduling (fixed: one replica at a time)"],
            expected_probes: vec!["compared_scenarios"],
        }
    }
}
