//! C18: a histogram timer records its duration exactly once, or never when discarded.
use crate::common::*;
use crate::compat::{self, PHist};
use crate::driver::{Info, RunOut, Scenario, Tier, Violation};
use crate::engine::{advance_here, Env, Ev, Mode, Outcome, Phase};
use crate::rng::Rng;
use crate::scen::value::{shrink_env, shrink_threads};
use prometheus::core::Collector;
use prometheus::local::{LocalHistogram, LocalHistogramTimer};
use prometheus::*;
use serde::{Deserialize, Serialize};
use serde_json::Value;
use std::collections::BTreeMap;
use std::sync::{Arc, Mutex};

#[derive(Serialize, Deserialize, Clone, Debug, PartialEq)]
pub enum How {
    ObserveDuration,
    StopAndRecord,
    StopAndDiscard,
    Drop,
    /// dropped while the thread unwinds from a panic (caught inside the operation)
    PanicDrop,
}
#[derive(Serialize, Deserialize, Clone, Debug, PartialEq)]
pub enum TOp {
    /// start timer `id` on the shared histogram (local = false) or on this thread's local one
    Start { id: u32, local: bool },
    /// advance the simulated clock by q quanta of 2^-9 s
    Advance(u32),
    /// end timer `id` if this thread holds it (its own, or one that was sent to it)
    Stop { id: u32, how: How },
    /// move shared timer `id` to thread `to`
    Send { id: u32, to: usize },
    /// observe_closure_duration(|| { advance(q); token })
    /// `nested`: what the closure itself does with the same histogram before it returns: 0 nothing,
    /// 1 a nested observe_closure_duration, 2 start_timer + observe_duration, 3 start_timer + stop_and_discard
    Closure {
        q: u32,
        local: bool,
        #[serde(default)]
        nested: u8,
    },
    LocalFlush,
    Collect,
    /// get_sample_sum() of the shared histogram
    GetSum,
}
#[derive(Serialize, Deserialize, Clone, Debug)]
pub struct TimerPlan {
    pub env: Env,
    /// bucket bounds in quanta
    pub bounds_q: Vec<u32>,
    pub threads: Vec<Vec<TOp>>,
    /// the threads end by panicking: timers still held and the local histogram are dropped by unwinding
    #[serde(default)]
    pub panic_end: bool,
}

fn gen_plan(seed: u64) -> TimerPlan {
    let mut r = Rng::new(seed, 1);
    let nthreads = if r.chance(45) { 1 } else { 2 + r.below(2) as usize };
    let mut next_id = 0u32;
    let mut threads: Vec<Vec<TOp>> = vec![];
    let mut open_by_thread: Vec<Vec<(u32, bool)>> = vec![vec![]; nthreads];
    let mut nops = 0;
    for t in 0..nthreads {
        let n = 3 + r.below(9) as usize;
        let mut ops = vec![];
        for _ in 0..n {
            let op = match r.below(100) {
                0..=24 => {
                    next_id += 1;
                    let local = r.chance(35);
                    open_by_thread[t].push((next_id - 1, local));
                    TOp::Start { id: next_id - 1, local }
                }
                25..=49 => TOp::Advance(match r.below(4) {
                    0 => 0,
                    1 => 1,
                    2 => 1 << r.below(12),
                    _ => r.below(3000) as u32,
                }),
                50..=69 => {
                    // stop one of our own open timers, or one that may have been sent to us
                    let cand: Vec<u32> = open_by_thread[t].iter().map(|x| x.0).collect();
                    let id = if !cand.is_empty() && r.chance(80) { *r.pick(&cand) } else { r.below(next_id.max(1) as u64) as u32 };
                    open_by_thread[t].retain(|x| x.0 != id);
                    TOp::Stop { id, how: r.pick(&[How::ObserveDuration, How::StopAndRecord, How::StopAndDiscard, How::Drop, How::Drop, How::PanicDrop]).clone() }
                }
                70..=77 if nthreads > 1 => {
                    let cand: Vec<u32> = open_by_thread[t].iter().filter(|x| !x.1).map(|x| x.0).collect();
                    if cand.is_empty() {
                        TOp::Advance(1)
                    } else {
                        let id = *r.pick(&cand);
                        open_by_thread[t].retain(|x| x.0 != id);
                        let mut to = r.below(nthreads as u64) as usize;
                        if to == t {
                            to = (t + 1) % nthreads;
                        }
                        TOp::Send { id, to }
                    }
                }
                78..=87 => TOp::Closure { q: r.below(500) as u32, local: r.chance(35), nested: if r.chance(30) { 1 + r.below(3) as u8 } else { 0 } },
                88..=92 => TOp::LocalFlush,
                93..=95 => TOp::GetSum,
                _ => TOp::Collect,
            };
            ops.push(op);
            nops += 1;
        }
        threads.push(ops);
    }
    if nthreads >= 2 && r.chance(15) {
        // one thread only reads the sum while another one collects after recording something
        let last = nthreads - 1;
        let n = 2 + r.below(3) as usize;
        threads[last] = (0..n).map(|_| TOp::GetSum).collect();
        next_id += 1;
        let mut head = vec![TOp::Start { id: next_id - 1, local: false }, TOp::Advance(1 + r.below(100) as u32), TOp::Stop { id: next_id - 1, how: How::ObserveDuration }];
        head.extend((0..1 + r.below(3)).map(|_| TOp::Collect));
        head.extend(threads[0].drain(..));
        threads[0] = head;
        nops += 6;
    }
    let faults = r.chance(50);
    let mut env = Env::swarm(&mut r, nthreads, nops as u64 * 8 + 20, faults);
    env.tick_pct = if r.chance(50) { *r.pick(&[10u32, 30]) } else { 0 };
    let nb = 1 + r.below(3) as usize;
    let mut bounds_q: Vec<u32> = (0..nb).map(|_| *r.pick(&[0u32, 1, 16, 512, 2048, 100000])).collect();
    bounds_q.sort();
    bounds_q.dedup();
    let panic_end = r.chance(20);
    TimerPlan { env, bounds_q, threads, panic_end }
}

enum AnyTimer {
    S(HistogramTimer),
    L(LocalHistogramTimer),
}

#[derive(Clone, Debug)]
enum TRes {
    None,
    /// stop happened with this fate and returned this value (if the call returns one)
    Stopped(u32, How, Option<f64>),
    NotHeld,
    Token(u64),
    Snap(PHist),
    Sum(f64),
    /// timers dropped (in this order) at thread end
    Dropped(Vec<u32>),
}

const Q: f64 = 1.0 / 512.0;

fn execute(plan: &TimerPlan, mode: Mode) -> RunOut {
    let sim = new_sim(&plan.env, mode);
    let bounds: Vec<f64> = plan.bounds_q.iter().map(|q| *q as f64 * Q).collect();
    let h = Histogram::with_opts(HistogramOpts::new("c18_h", "help").buckets(bounds.clone())).unwrap();
    let results: Results<TRes> = Arc::new(Mutex::new(vec![]));
    // mailbox for timers moved between threads: (timer id, destination) -> timer
    let mailbox: Arc<Mutex<BTreeMap<u32, (usize, HistogramTimer)>>> = Arc::new(Mutex::new(BTreeMap::new()));
    let nthreads = plan.threads.len();
    for (t, ops) in plan.threads.iter().enumerate() {
        let ops = ops.clone();
        let h = h.clone();
        let results = results.clone();
        let mailbox = mailbox.clone();
        let panic_end = plan.panic_end;
        sim.spawn(&format!("sim{}", t), false, move |ctx| {
            let local: LocalHistogram = h.local();
            let mut held: BTreeMap<u32, AnyTimer> = BTreeMap::new();
            for (i, op) in ops.iter().enumerate() {
                let id = op_id(t, i);
                ctx.invoke(id);
                let r = crate::seams::catch(std::panic::AssertUnwindSafe(|| match op {
                    TOp::Start { id, local: l } => {
                        let tm = if *l { AnyTimer::L(local.start_timer()) } else { AnyTimer::S(h.start_timer()) };
                        held.insert(*id, tm);
                        TRes::None
                    }
                    TOp::Advance(q) => {
                        ctx.advance(*q as u64);
                        TRes::None
                    }
                    TOp::Stop { id, how } => {
                        let tm = match held.remove(id) {
                            Some(tm) => Some(tm),
                            None => {
                                let mut mb = mailbox.lock().unwrap();
                                if mb.get(id).map(|x| x.0 == t).unwrap_or(false) {
                                    mb.remove(id).map(|x| AnyTimer::S(x.1))
                                } else {
                                    None
                                }
                            }
                        };
                        match tm {
                            None => TRes::NotHeld,
                            Some(AnyTimer::S(tm)) => match how {
                                How::ObserveDuration => {
                                    tm.observe_duration();
                                    TRes::Stopped(*id, how.clone(), None)
                                }
                                How::StopAndRecord => TRes::Stopped(*id, how.clone(), Some(tm.stop_and_record())),
                                How::StopAndDiscard => TRes::Stopped(*id, how.clone(), Some(tm.stop_and_discard())),
                                How::Drop => {
                                    drop(tm);
                                    TRes::Stopped(*id, how.clone(), None)
                                }
                                How::PanicDrop => {
                                    drop_while_unwinding(tm);
                                    TRes::Stopped(*id, how.clone(), None)
                                }
                            },
                            Some(AnyTimer::L(tm)) => match how {
                                How::ObserveDuration => {
                                    tm.observe_duration();
                                    TRes::Stopped(*id, how.clone(), None)
                                }
                                How::StopAndRecord => TRes::Stopped(*id, how.clone(), Some(tm.stop_and_record())),
                                How::StopAndDiscard => TRes::Stopped(*id, how.clone(), Some(tm.stop_and_discard())),
                                How::Drop => {
                                    drop(tm);
                                    TRes::Stopped(*id, how.clone(), None)
                                }
                                How::PanicDrop => {
                                    drop_while_unwinding(tm);
                                    TRes::Stopped(*id, how.clone(), None)
                                }
                            },
                        }
                    }
                    TOp::Send { id, to } => {
                        if let Some(AnyTimer::S(tm)) = held.remove(id) {
                            mailbox.lock().unwrap().insert(*id, (*to, tm));
                        }
                        TRes::None
                    }
                    TOp::Closure { q, local: l, nested } => {
                        let token = 0xC0FFEE00u64 + *q as u64;
                        let f = || {
                            advance_here(*q as u64);
                            // re-entrancy: the closure uses the histogram it is being timed on
                            match (*nested, *l) {
                                (1, true) => local.observe_closure_duration(|| advance_here(1)),
                                (1, false) => h.observe_closure_duration(|| advance_here(1)),
                                (2, true) => {
                                    let t = local.start_timer();
                                    advance_here(2);
                                    t.observe_duration();
                                }
                                (2, false) => {
                                    let t = h.start_timer();
                                    advance_here(2);
                                    t.observe_duration();
                                }
                                (3, true) => {
                                    let t = local.start_timer();
                                    advance_here(2);
                                    t.stop_and_discard();
                                }
                                (3, false) => {
                                    let t = h.start_timer();
                                    advance_here(2);
                                    t.stop_and_discard();
                                }
                                _ => {}
                            }
                            token
                        };
                        TRes::Token(if *l { local.observe_closure_duration(f) } else { h.observe_closure_duration(f) })
                    }
                    TOp::LocalFlush => {
                        local.flush();
                        TRes::None
                    }
                    TOp::GetSum => TRes::Sum(h.get_sample_sum()),
                    TOp::Collect => TRes::Snap(compat::family_of(&h.collect()[0]).metrics[0].hist.clone().unwrap()),
                }));
                ctx.ret(id);
                results.lock().unwrap().push((id, r));
            }
            // thread end: timers still held are dropped (each records), then the local histogram
            let id = op_id(t, 900);
            ctx.invoke(id);
            let left: Vec<u32> = held.keys().copied().collect();
            if panic_end {
                drop_while_unwinding((held, local));
            } else {
                drop(held);
                drop(local);
            }
            ctx.ret(id);
            results.lock().unwrap().push((id, Ok(TRes::Dropped(left))));
            let _ = nthreads;
        });
    }
    let fin: Arc<Mutex<Option<PHist>>> = Arc::new(Mutex::new(None));
    let drained: Arc<Mutex<Vec<u32>>> = Arc::new(Mutex::new(vec![]));
    {
        let h = h.clone();
        let fin = fin.clone();
        let mailbox = mailbox.clone();
        let drained = drained.clone();
        spawn_final(&sim, move |_| {
            // timers nobody picked up are dropped here (in id order), under the simulated clock
            let mb = std::mem::take(&mut *mailbox.lock().unwrap());
            *drained.lock().unwrap() = mb.keys().copied().collect();
            let left: Vec<(usize, HistogramTimer)> = mb.into_values().collect();
            drop(left);
            *fin.lock().unwrap() = Some(compat::family_of(&h.collect()[0]).metrics[0].hist.clone().unwrap());
        });
    }
    let res = sim.run();
    let mut out = base_out(&plan.env, &res);
    out.nontrivial = plan.threads.iter().flatten().filter(|o| matches!(o, TOp::Start { .. } | TOp::Closure { .. })).count() >= 2;
    for (t, p) in &res.panics {
        out.violations.push(Violation::new("C18/panic", "C18/panic", format!("thread {} panicked: {}", t, p)));
    }
    if res.outcome == Outcome::Stuck {
        out.violations.push(Violation::new("C18/stuck", "C18/stuck", "no thread can make progress".to_string()));
        return out;
    }
    if !is_finished(&res) {
        return out;
    }
    // ---- ground truth: the clock values the library actually read, per API call
    let mut cur_op: BTreeMap<u8, u32> = BTreeMap::new();
    let mut reads: BTreeMap<u32, Vec<u64>> = BTreeMap::new();
    for e in &res.log {
        match e {
            Ev::Api { t, op, phase } => {
                if *phase == Phase::Invoke {
                    cur_op.insert(*t, *op);
                } else {
                    cur_op.remove(t);
                }
            }
            Ev::Clock { t, now } => {
                if let Some(op) = cur_op.get(t) {
                    reads.entry(*op).or_default().push(*now);
                }
            }
            _ => {}
        }
    }
    let results = results.lock().unwrap();
    let secs = |a: u64, b: u64| (b.saturating_sub(a)) as f64 / 1e9;
    // start read of every timer
    let mut start_read: BTreeMap<u32, u64> = BTreeMap::new();
    let mut is_local: BTreeMap<u32, bool> = BTreeMap::new();
    for (t, ops) in plan.threads.iter().enumerate() {
        for (i, op) in ops.iter().enumerate() {
            if let TOp::Start { id, local } = op {
                if let Some(r) = reads.get(&op_id(t, i)) {
                    if r.len() == 1 {
                        start_read.insert(*id, r[0]);
                    }
                }
                is_local.insert(*id, *local);
            }
        }
    }
    let mut expected: Vec<f64> = vec![];
    // durations recorded by an operation through the SHARED histogram at the moment the operation
    // returns (shared timers and closures; local ones arrive later, with a flush)
    let mut rec_shared: Vec<(u32, f64)> = vec![];
    let mut stopped: BTreeMap<u32, u32> = BTreeMap::new();
    let mut n_discard = 0u64;
    let mut n_moved = 0u64;
    for (id, r) in results.iter() {
        let t = op_thread(*id);
        let i = *id as usize % 1000;
        if i == 900 {
            continue;
        }
        let op = &plan.threads[t][i];
        let r = match r {
            Ok(r) => r,
            Err(p) => {
                out.violations.push(Violation::new("C18/panic", "C18/panic", format!("op {:?} panicked: {}", op, p)));
                continue;
            }
        };
        match (op, r) {
            (TOp::Stop { .. }, TRes::Stopped(tid, how, ret)) => {
                *stopped.entry(*tid).or_default() += 1;
                let rd = reads.get(id).cloned().unwrap_or_default();
                if rd.len() != 1 || !start_read.contains_key(tid) {
                    // the implementation reads the clock differently from what the harness can attribute:
                    // keep the count oracle, give up exact values for this run
                    if *how != How::StopAndDiscard {
                        expected.push(f64::NAN);
                    } else {
                        n_discard += 1;
                    }
                    continue;
                }
                let d = secs(start_read[tid], rd[0]);
                // was it started on another thread?
                let starter = plan.threads.iter().position(|ops| ops.iter().any(|o| matches!(o, TOp::Start { id, .. } if id == tid))).unwrap_or(t);
                if starter != t {
                    n_moved += 1;
                }
                if *how == How::StopAndDiscard {
                    n_discard += 1;
                } else {
                    expected.push(d);
                    if is_local.get(tid) == Some(&false) {
                        rec_shared.push((*id, d));
                    }
                }
                if let Some(v) = ret {
                    if *v != d {
                        out.violations.push(Violation::new("C18/value", "C18/value", format!("timer {} stopped with {:?} returned {} s but the clock advanced {} s between its start and stop", tid, how, v, d)));
                    }
                    if *v < 0.0 {
                        out.violations.push(Violation::new("C18/value", "C18/negative", format!("timer {} returned a negative duration {}", tid, v)));
                    }
                }
            }
            (TOp::Closure { q, .. }, TRes::Token(tok)) => {
                if *tok != 0xC0FFEE00u64 + *q as u64 {
                    out.violations.push(Violation::new("C18/closure", "C18/closure", format!("observe_closure_duration returned {:#x}, the closure returned {:#x}", tok, 0xC0FFEE00u64 + *q as u64)));
                }
                let rd = reads.get(id).cloned().unwrap_or_default();
                let nested = if let TOp::Closure { nested, .. } = op { *nested } else { 0 };
                if nested == 0 {
                    expected.push(if rd.len() == 2 { secs(rd[0], rd[1]) } else { f64::NAN });
                    if let (TOp::Closure { local: false, .. }, 2) = (op, rd.len()) {
                        rec_shared.push((*id, secs(rd[0], rd[1])));
                    }
                } else {
                    // clock reads: outer start, inner start, inner stop, outer stop
                    let ok = rd.len() == 4;
                    expected.push(if ok { secs(rd[0], rd[3]) } else { f64::NAN });
                    if nested != 3 {
                        expected.push(if ok { secs(rd[1], rd[2]) } else { f64::NAN });
                    } else {
                        n_discard += 1;
                    }
                }
            }
            _ => {}
        }
    }
    // timers dropped at thread end / by the final drain: one clock read per timer, in drop order
    for (id, r) in results.iter() {
        if let Ok(TRes::Dropped(list)) = r {
            let rd = reads.get(id).cloned().unwrap_or_default();
            for (k, tid) in list.iter().enumerate() {
                expected.push(if rd.len() == list.len() && start_read.contains_key(tid) { secs(start_read[tid], rd[k]) } else { f64::NAN });
                *stopped.entry(*tid).or_default() += 1;
            }
        }
    }
    {
        let list = drained.lock().unwrap().clone();
        let rd = reads.get(&FINAL_OP).cloned().unwrap_or_default();
        for (k, tid) in list.iter().enumerate() {
            expected.push(if rd.len() == list.len() && start_read.contains_key(tid) { secs(start_read[tid], rd[k]) } else { f64::NAN });
            *stopped.entry(*tid).or_default() += 1;
        }
    }
    let exact = expected.iter().all(|d| !d.is_nan());
    let fin = match fin.lock().unwrap().clone() {
        Some(f) => f,
        None => return out,
    };
    if fin.count != expected.len() as u64 {
        let key = if fin.count > expected.len() as u64 { "C18/count:more" } else { "C18/count:fewer" };
        out.violations.push(Violation::new("C18/count", key, format!("{} timers / closures should have recorded exactly once ({} discarded, which must not), but the histogram holds {} observations", expected.len(), n_discard, fin.count)));
    } else if exact {
        let sum: f64 = expected.iter().sum();
        if fin.sum != sum {
            out.violations.push(Violation::new("C18/sum", "C18/sum", format!("recorded durations should be {:?} (sum {}), the histogram's sum is {}", expected, sum, fin.sum)));
        }
        for (ub, cc) in &fin.buckets {
            let want = expected.iter().filter(|d| **d <= *ub).count() as u64;
            if *cc != want {
                out.violations.push(Violation::new("C18/sum", "C18/buckets", format!("bucket le={} holds {} but {} of the recorded durations {:?} are <= it", ub, cc, want, expected)));
            }
        }
    }
    for (tid, n) in &stopped {
        if *n > 1 {
            out.violations.push(Violation::new("C18/harness", "C18/harness", format!("timer {} ended {} times in the harness' bookkeeping", tid, n)));
        }
    }
    // get_sample_sum(): every duration recorded through the shared histogram by an operation that had
    // returned before the read began is in it (durations are multiples of 2^-9 s: sums are exact)
    {
        let ivs = intervals(&res.log);
        for (id, r) in results.iter() {
            if let Ok(TRes::Sum(got)) = r {
                let inv = ivs[id].0;
                let lower: f64 = rec_shared.iter().filter(|(oid, _)| ivs.get(oid).map(|x| x.1 < inv).unwrap_or(false)).map(|x| x.1).sum();
                if *got < lower || *got < 0.0 || got.is_nan() {
                    out.violations.push(Violation::new("C18/sum", "C18/get-sum", format!("get_sample_sum op {} = {} s although timers / closures that had ended before it began recorded {} s in total", id, got, lower)));
                }
            }
        }
    }
    // intermediate collections never show more than what could have been recorded by then
    let iv = intervals(&res.log);
    for (id, r) in results.iter() {
        if let Ok(TRes::Snap(s)) = r {
            let ret = iv[id].1;
            let mut upper = 0u64;
            for (oid, rr) in results.iter() {
                if iv.get(oid).map(|x| x.0 < ret).unwrap_or(false) {
                    upper += match rr {
                        Ok(TRes::Stopped(_, how, _)) if *how != How::StopAndDiscard => 1,
                        Ok(TRes::Token(_)) => match &plan.threads[op_thread(*oid)][*oid as usize % 1000] {
                            TOp::Closure { nested: 1 | 2, .. } => 2,
                            _ => 1,
                        },
                        Ok(TRes::Dropped(l)) => l.len() as u64,
                        _ => 0,
                    };
                }
            }
            if s.count > upper {
                out.violations.push(Violation::new("C18/count", "C18/count:more", format!("collect op {} shows {} observations but only {} timers / closures had ended by then", id, s.count, upper)));
            }
        }
    }
    let mut fp = crate::rng::Fp::default();
    fp.str(&serde_json::to_string(&(&plan.threads, &plan.bounds_q)).unwrap());
    out.signature = out.signature.wrapping_add(fp.0);
    out.probes.push(("timers_discarded", n_discard));
    out.probes.push(("timers_ended_on_another_thread", n_moved));
    out.probes.push(("zero_durations", expected.iter().filter(|d| **d == 0.0).count() as u64));
    out.probes.push(("exactly_attributed_runs", exact as u64));
    let n_panic = plan.threads.iter().flatten().filter(|o| matches!(o, TOp::Stop { how: How::PanicDrop, .. })).count() as u64 + if plan.panic_end { plan.threads.len() as u64 } else { 0 };
    out.faults.push(("injected_panic_unwinding", n_panic));
    out.faults.push(("clock_freeze_or_zero_advance", expected.iter().filter(|d| **d == 0.0).count() as u64));
    out
}

pub struct C18;
impl Scenario for C18 {
    fn id(&self) -> &'static str {
        "C18"
    }
    fn name(&self) -> &'static str {
        "timers"
    }
    fn runs(&self, tier: Tier) -> u64 {
        match tier {
            Tier::Quick => 120_000,
            Tier::Thorough => 3_000_000,
        }
    }
    fn gen(&self, seed: u64, _tier: Tier) -> Value {
        serde_json::to_value(gen_plan(seed)).unwrap()
    }
    fn run(&self, plan: &Value, mode: Mode) -> RunOut {
        let plan: TimerPlan = serde_json::from_value(plan.clone()).expect("C18 plan");
        let hs = plan.env.hash_seed;
        isolated(hs, move || execute(&plan, mode))
    }
    fn shrink(&self, plan: &Value) -> Vec<Value> {
        let p: TimerPlan = serde_json::from_value(plan.clone()).unwrap();
        let mut c: Vec<TimerPlan> = shrink_threads(&p.threads).into_iter().filter(|t| t.len() == p.threads.len()).map(|t| TimerPlan { threads: t, ..p.clone() }).collect();
        for e in shrink_env(&p.env) {
            c.push(TimerPlan { env: e, ..p.clone() });
        }
        c.into_iter().map(|p| serde_json::to_value(p).unwrap()).collect()
    }
    fn info(&self) -> Info {
        Info {
            rule: "one run = 1-3 simulated threads with 3-11 operations each over one shared histogram and one local histogram per thread: start_timer (shared/local), advance the simulated clock, observe_duration / stop_and_record / stop_and_discard / drop, move a shared timer to another thread, observe_closure_duration, local flush, collect; the clock is the simulator's (explicit advances plus seeded random steps incl. zero advance); ground truth for every duration is the pair of clock values the library actually read inside the start and stop calls; at quiescence the histogram must hold exactly the recorded durations (count, exact sum, buckets) and every returned duration must equal its ground truth; non-trivial = >=2 timers/closures; distinct = distinct (plan, interleaving)",
            assumptions: vec!["durations are multiples of 2^-9 s so sums are exact", "saturating_duration_since is the shim's (a regressing clock is not injected; zero advance is)", "start_coarse_timer (feature nightly) is outside the pinned build"],
            real: vec!["prometheus::{Histogram, HistogramTimer, LocalHistogram, LocalHistogramTimer} (all code)"],
            stubbed: vec!["the clock (simulated, discrete-event)", "thread scheduling", "panics (raised by the harness inside an operation or at thread end, caught again after the destructors ran)"],
            expected_probes: vec!["timers_discarded", "timers_ended_on_another_thread", "zero_durations", "exactly_attributed_runs"],
        }
    }
}
