//! C06: registry admission against a reference model, sequential and concurrent histories.
use crate::common::*;
use crate::compat::{self, PType};
use crate::driver::{Info, RunOut, Scenario, Tier, Violation};
use crate::engine::{Env, Mode, Outcome};
use crate::lin::{linearize, HOp, Spec};
use crate::rng::Rng;
use crate::scen::value::{shrink_env, shrink_threads};
use prometheus::core::{Collector, Desc};
use prometheus::*;
use serde::{Deserialize, Serialize};
use serde_json::Value;
use std::collections::{BTreeMap, BTreeSet, HashMap};
use std::sync::{Arc, Mutex};

#[derive(Serialize, Deserialize, Clone, Debug, PartialEq, Eq, PartialOrd, Ord, Hash)]
pub struct DescSpec {
    pub name: String,
    pub help: String,
    pub consts: Vec<(String, String)>,
    pub vars: Vec<String>,
}
impl DescSpec {
    /// identity as the statement defines it: name + constant-label values in label-name order
    pub fn identity(&self) -> (String, Vec<String>) {
        let mut c = self.consts.clone();
        c.sort();
        (self.name.clone(), c.into_iter().map(|(_, v)| v).collect())
    }
    /// dimension: help + set of constant names + set of variable names
    pub fn dim(&self) -> (String, BTreeSet<String>, BTreeSet<String>) {
        (self.help.clone(), self.consts.iter().map(|(k, _)| k.clone()).collect(), self.vars.iter().cloned().collect())
    }
    pub fn build(&self) -> prometheus::Result<Desc> {
        let mut m = HashMap::new();
        for (k, v) in &self.consts {
            m.insert(k.clone(), v.clone());
        }
        Desc::new(self.name.clone(), self.help.clone(), self.vars.clone(), m)
    }
}

/// Collector scripted by the plan: one counter family per descriptor, sample value = marker.
pub struct Scripted {
    pub descs: Vec<Desc>,
    pub specs: Vec<DescSpec>,
    pub markers: Vec<f64>,
    pub yield_in_collect: bool,
}
impl Collector for Scripted {
    fn desc(&self) -> Vec<&Desc> {
        self.descs.iter().collect()
    }
    fn collect(&self) -> Vec<proto::MetricFamily> {
        if self.yield_in_collect {
            crate::engine::yield_here();
        }
        let mut out = vec![];
        for (i, s) in self.specs.iter().enumerate() {
            let mut labels: Vec<(String, String)> = s.consts.clone();
            for v in &s.vars {
                labels.push((v.clone(), "v".into()));
            }
            labels.sort();
            let f = compat::PFamily { name: Some(s.name.clone()), help: Some(s.help.clone()), typ: PType::Counter, metrics: vec![compat::PMetric { labels, counter: Some(self.markers[i]), ..Default::default() }] };
            out.push(compat::to_proto(&f));
        }
        out
    }
}

#[derive(Serialize, Deserialize, Clone, Debug, PartialEq)]
pub enum ROp {
    Register(usize),
    Unregister(usize),
    Gather,
}
#[derive(Serialize, Deserialize, Clone, Debug)]
pub struct RegPlan {
    pub env: Env,
    pub collectors: Vec<Vec<DescSpec>>,
    pub threads: Vec<Vec<ROp>>,
    pub yield_in_collect: bool,
    /// history before the generated operations, executed sequentially: these collectors are
    /// registered and unregistered again (their names and dimensions are then "ever registered") ...
    #[serde(default)]
    pub pre: Vec<usize>,
    /// ... followed by this many register+unregister pairs of collectors with fresh names (long churn:
    /// nothing a registry remembers may be forgotten because much else happened in between)
    #[serde(default)]
    pub churn: usize,
}

fn gen_desc(r: &mut Rng, names: &[&str]) -> DescSpec {
    let name = r.pick(names).to_string();
    let help = r.pick(&["help A", "help B"]).to_string();
    let consts = match r.below(5) {
        0 => vec![],
        1 => vec![("c".to_string(), "1".to_string())],
        2 => vec![("c".to_string(), "2".to_string())],
        3 => vec![("c".to_string(), "1".to_string()), ("d".to_string(), "x".to_string())],
        // a name that other descriptors use for a VARIABLE label
        _ => vec![("v".to_string(), "1".to_string())],
    };
    let mut vars = match r.below(4) {
        0 => vec![],
        1 => vec!["v".to_string()],
        2 => vec!["w".to_string()],
        // ... and a name that other descriptors use for a CONSTANT label
        _ => vec!["c".to_string()],
    };
    vars.retain(|v| !consts.iter().any(|(k, _)| k == v));
    DescSpec { name, help, consts, vars }
}

/// a collector whose own descriptors repeat an identity or disagree in dimension under one name
pub fn malformed(ds: &[DescSpec]) -> bool {
    (0..ds.len()).any(|i| (0..i).any(|j| ds[i].identity() == ds[j].identity() || (ds[i].name == ds[j].name && ds[i].dim() != ds[j].dim())))
}

fn gen_plan(seed: u64) -> RegPlan {
    let mut r = Rng::new(seed, 1);
    let names_all = ["m1", "m2", "m3"];
    let names = &names_all[..2 + r.below(2) as usize];
    let ncoll = 3 + r.below(4) as usize;
    let mut collectors: Vec<Vec<DescSpec>> = vec![];
    let mut tries = 0;
    while collectors.len() < ncoll && tries < 200 {
        tries += 1;
        let nd = match r.below(10) {
            0..=4 => 1,
            5..=7 => 2,
            _ => 3,
        };
        let mut ds: Vec<DescSpec> = vec![];
        let mut t2 = 0;
        while ds.len() < nd && t2 < 50 {
            t2 += 1;
            let d = gen_desc(&mut r, names);
            // within one collector: pairwise distinct identities, mutually consistent dimensions
            if ds.iter().any(|o| o.identity() == d.identity() || (o.name == d.name && o.dim() != d.dim())) {
                continue;
            }
            ds.push(d);
        }
        // distinct collectors have distinct descriptor-identity sets
        let idset = |c: &Vec<DescSpec>| c.iter().map(|d| d.identity()).collect::<BTreeSet<_>>();
        if collectors.iter().any(|c| idset(c) == idset(&ds)) {
            continue;
        }
        collectors.push(ds);
    }
    if r.chance(20) {
        // one self-contradictory collector (the statement does not say whether it is admitted; if it
        // is refused, the refusal must leave no trace): well-formed descriptors first, then one that
        // repeats an identity or disagrees in dimension with an earlier one of the same collector
        let mut ds: Vec<DescSpec> = vec![];
        let nd = 1 + r.below(2) as usize;
        let mut t2 = 0;
        while ds.len() < nd && t2 < 50 {
            t2 += 1;
            let d = gen_desc(&mut r, &names_all);
            if ds.iter().any(|o| o.identity() == d.identity() || (o.name == d.name && o.dim() != d.dim())) {
                continue;
            }
            ds.push(d);
        }
        let k = r.below(ds.len() as u64) as usize;
        let mut bad = ds[k].clone();
        if r.chance(50) {
            bad.help = if bad.help == "help A" { "help B".into() } else { "help A".into() };
            if r.chance(50) {
                bad.consts = vec![("c".to_string(), "3".to_string())];
            }
        }
        if r.chance(70) {
            ds.push(bad);
        } else {
            ds.insert(r.below(ds.len() as u64 + 1) as usize, bad);
        }
        if malformed(&ds) {
            collectors.push(ds);
        }
    }
    let nthreads = if r.chance(70) { 1 } else { 2 + r.below(2) as usize };
    let total = 4 + r.below(if nthreads == 1 { 11 } else { 8 }) as usize;
    let mut threads: Vec<Vec<ROp>> = vec![vec![]; nthreads];
    for k in 0..total {
        let op = match r.below(100) {
            0..=54 => ROp::Register(r.below(collectors.len() as u64) as usize),
            55..=79 => ROp::Unregister(r.below(collectors.len() as u64) as usize),
            _ => ROp::Gather,
        };
        threads[k % nthreads].push(op);
    }
    let env = Env::swarm(&mut r, nthreads, total as u64 * 6 + 10, false);
    let yield_in_collect = nthreads > 1 && r.chance(40);
    let (pre, churn) = if r.chance(3) {
        let k = 1 + r.below(collectors.len() as u64) as usize;
        let mut idx: Vec<usize> = (0..collectors.len()).collect();
        r.shuffle(&mut idx);
        idx.truncate(k);
        // most of these runs are short; about one run in 400 churns through more than a thousand names
        (idx, *r.pick(&[0usize, 3, 17, 40, 130, 130, 300, 1100, 2100]))
    } else {
        (vec![], 0)
    };
    RegPlan { env, collectors, threads, yield_in_collect, pre, churn }
}

#[derive(Clone, Debug, PartialEq)]
pub enum RRes {
    RegOk,
    RegAlready,
    RegErr(String),
    UnregOk,
    UnregErr,
    /// (collector, desc) pairs recognised by marker; garbage = samples that match nothing
    Gathered(Vec<(usize, usize)>, Vec<String>),
}

// ------------------------------------------------------------------ model
#[derive(Clone, PartialEq, Eq, Hash, Debug)]
pub struct MReg {
    pub registered: BTreeSet<usize>,
    pub ever: BTreeMap<String, (String, BTreeSet<String>, BTreeSet<String>)>,
    /// a self-contradictory collector was admitted: the statement does not define what follows
    pub unknown: bool,
}
pub struct RegSpec<'a> {
    pub collectors: &'a [Vec<DescSpec>],
}
impl<'a> RegSpec<'a> {
    /// (accepted, identity clash, dimension disagreement)
    pub fn admit(&self, s: &MReg, c: usize) -> (bool, bool, bool) {
        let ids: BTreeSet<(String, Vec<String>)> = s.registered.iter().flat_map(|r| self.collectors[*r].iter().map(|d| d.identity())).collect();
        let clash = self.collectors[c].iter().any(|d| ids.contains(&d.identity()));
        let dimbad = self.collectors[c].iter().any(|d| s.ever.get(&d.name).map(|e| *e != d.dim()).unwrap_or(false));
        (!clash && !dimbad, clash, dimbad)
    }
}
impl<'a> Spec for RegSpec<'a> {
    type State = MReg;
    type Op = (ROp, RRes);
    fn step(&self, s: &MReg, op: &Self::Op) -> Option<MReg> {
        let mut n = s.clone();
        if s.unknown {
            return Some(n);
        }
        match (&op.0, &op.1) {
            (ROp::Register(c), res) if malformed(&self.collectors[*c]) => match res {
                RRes::RegOk => n.unknown = true,
                // refused: the registry must behave as if the call had never been made
                RRes::RegAlready | RRes::RegErr(_) => {}
                _ => return None,
            },
            (ROp::Register(c), res) => {
                let (ok, clash, dimbad) = self.admit(s, *c);
                match res {
                    RRes::RegOk => {
                        if !ok {
                            return None;
                        }
                        n.registered.insert(*c);
                        for d in &self.collectors[*c] {
                            n.ever.entry(d.name.clone()).or_insert(d.dim());
                        }
                    }
                    RRes::RegAlready => {
                        if ok {
                            return None;
                        }
                    }
                    RRes::RegErr(_) => {
                        // AlreadyReg is demanded when an equal descriptor is the sole reason
                        if ok || (clash && !dimbad) {
                            return None;
                        }
                    }
                    _ => return None,
                }
            }
            (ROp::Unregister(c), res) => {
                // a collector is identified by the set of its descriptor identities (generated
                // well-formed collectors have pairwise different sets; a self-contradictory one may
                // repeat an identity and thereby equal a well-formed one)
                let idset = |c: usize| self.collectors[c].iter().map(|d| d.identity()).collect::<BTreeSet<_>>();
                let present = s.registered.iter().copied().find(|r| idset(*r) == idset(*c));
                match (res, present) {
                    (RRes::UnregOk, Some(r)) => {
                        n.registered.remove(&r);
                    }
                    (RRes::UnregErr, None) => {}
                    _ => return None,
                }
            }
            (ROp::Gather, RRes::Gathered(got, garbage)) => {
                if !garbage.is_empty() {
                    return None;
                }
                let mut want: Vec<(usize, usize)> = s.registered.iter().flat_map(|c| (0..self.collectors[*c].len()).map(move |d| (*c, d))).collect();
                want.sort();
                let mut g = got.clone();
                g.sort();
                if g != want {
                    return None;
                }
            }
            _ => return None,
        }
        Some(n)
    }
}

pub fn marker(c: usize, d: usize) -> f64 {
    (1000 + c * 10 + d) as f64
}

pub fn make_collector(specs: &[DescSpec], c: usize, yield_in_collect: bool) -> std::result::Result<Scripted, String> {
    let mut descs = vec![];
    for s in specs {
        descs.push(s.build().map_err(|e| e.to_string())?);
    }
    Ok(Scripted { descs, specs: specs.to_vec(), markers: (0..specs.len()).map(|d| marker(c, d)).collect(), yield_in_collect })
}

pub fn classify_gather(collectors: &[Vec<DescSpec>], mfs: &[proto::MetricFamily]) -> RRes {
    let mut got = vec![];
    let mut garbage = vec![];
    for f in compat::families_of(mfs) {
        for m in &f.metrics {
            let v = m.counter.unwrap_or(f64::NAN);
            let mut found = false;
            for (c, ds) in collectors.iter().enumerate() {
                for (d, spec) in ds.iter().enumerate() {
                    if v == marker(c, d) && f.name.as_deref() == Some(&spec.name) {
                        got.push((c, d));
                        found = true;
                    }
                }
            }
            if !found {
                garbage.push(format!("{:?}{:?}={}", f.name, m.labels, v));
            }
        }
    }
    RRes::Gathered(got, garbage)
}

fn execute(plan: &RegPlan, mode: Mode) -> RunOut {
    let sim = new_sim(&plan.env, mode);
    let results: Results<RRes> = Arc::new(Mutex::new(vec![]));
    let reg = Registry::new();
    // ---- earlier history (sequential, before the simulated threads start)
    let spec0 = RegSpec { collectors: &plan.collectors };
    let mut init = MReg { registered: BTreeSet::new(), ever: BTreeMap::new(), unknown: false };
    let mut pre_viol: Vec<Violation> = vec![];
    for &c in &plan.pre {
        let col = |c: usize| make_collector(&plan.collectors[c], c, false);
        let r1 = match col(c) {
            Ok(x) => match reg.register(Box::new(x)) {
                Ok(()) => RRes::RegOk,
                Err(Error::AlreadyReg) => RRes::RegAlready,
                Err(e) => RRes::RegErr(e.to_string()),
            },
            Err(e) => RRes::RegErr(format!("descriptor construction failed: {}", e)),
        };
        let mut ops = vec![(ROp::Register(c), r1.clone())];
        if r1 == RRes::RegOk {
            let r2 = match col(c) {
                Ok(x) => match reg.unregister(Box::new(x)) {
                    Ok(()) => RRes::UnregOk,
                    Err(_) => RRes::UnregErr,
                },
                Err(_) => RRes::UnregErr,
            };
            ops.push((ROp::Unregister(c), r2));
        }
        for op in ops {
            match spec0.step(&init, &op) {
                Some(n) => init = n,
                None => pre_viol.push(Violation::new("C06/history", "C06/history", format!("earlier history: {:?} -> {} disagrees with the reference model (collectors {:?})", op.0, short(&op.1), plan.collectors.iter().map(|c| c.iter().map(|d| format!("{}|{}|{:?}|{:?}", d.name, d.help, d.consts, d.vars)).collect::<Vec<_>>()).collect::<Vec<_>>()))),
            }
        }
    }
    for i in 0..plan.churn {
        let d = DescSpec { name: format!("zz_churn_{}", i), help: "help".into(), consts: vec![], vars: vec![] };
        let ok = make_collector(&[d.clone()], 90, false).map(|x| reg.register(Box::new(x)).is_ok()).unwrap_or(false) && make_collector(&[d], 90, false).map(|x| reg.unregister(Box::new(x)).is_ok()).unwrap_or(false);
        if !ok {
            pre_viol.push(Violation::new("C06/history", "C06/history", format!("churn: register+unregister of the fresh name zz_churn_{} was refused", i)));
            break;
        }
    }
    {
        let reg = reg.clone();
        let collectors = plan.collectors.clone();
        let y = plan.yield_in_collect;
        spawn_threads(&sim, &plan.threads, &results, move |_ctx, _t, _i, op: &ROp| match op {
            ROp::Register(c) => match make_collector(&collectors[*c], *c, y) {
                Ok(col) => match reg.register(Box::new(col)) {
                    Ok(()) => RRes::RegOk,
                    Err(Error::AlreadyReg) => RRes::RegAlready,
                    Err(e) => RRes::RegErr(e.to_string()),
                },
                Err(e) => RRes::RegErr(format!("descriptor construction failed: {}", e)),
            },
            ROp::Unregister(c) => match make_collector(&collectors[*c], *c, y) {
                Ok(col) => match reg.unregister(Box::new(col)) {
                    Ok(()) => RRes::UnregOk,
                    Err(_) => RRes::UnregErr,
                },
                Err(_) => RRes::UnregErr,
            },
            ROp::Gather => classify_gather(&collectors, &reg.gather()),
        });
    }
    let res = sim.run();
    let mut out = base_out(&plan.env, &res);
    let total_ops: usize = plan.threads.iter().map(|t| t.len()).sum();
    out.nontrivial = total_ops >= 3;
    for (t, p) in &res.panics {
        out.violations.push(Violation::new("C06/panic", "C06/panic", format!("thread {} panicked: {}", t, p)));
    }
    if res.outcome == Outcome::Stuck {
        out.violations.push(Violation::new("C06/stuck", "C06/stuck", "no thread can make progress".to_string()));
        return out;
    }
    if !is_finished(&res) {
        return out;
    }
    let iv = intervals(&res.log);
    let results = results.lock().unwrap();
    let mut h: Vec<HOp<(ROp, RRes)>> = vec![];
    for (id, r) in results.iter() {
        let (inv, ret) = iv[id];
        let op = plan.threads[op_thread(*id)][*id as usize % 1000].clone();
        match r {
            Ok(r) => h.push(HOp { inv, ret, op: (op, r.clone()) }),
            Err(p) => out.violations.push(Violation::new("C06/panic", "C06/panic", format!("op {:?} panicked: {}", op, p))),
        }
    }
    h.sort_by_key(|o| o.inv);
    let spec = RegSpec { collectors: &plan.collectors };
    out.violations.extend(pre_viol);
    if linearize(&spec, init.clone(), &h).is_none() {
        // explain: replay sequentially (exact for single-threaded histories) to find the first disagreement
        let mut s = init;
        let mut first = String::new();
        let mut failed_multi_before = false;
        let mut key = "C06/history".to_string();
        for o in &h {
            match spec.step(&s, &o.op) {
                Some(n) => {
                    if let (ROp::Register(c), RRes::RegAlready | RRes::RegErr(_)) = (&o.op.0, &o.op.1) {
                        if plan.collectors[*c].len() > 1 {
                            failed_multi_before = true;
                        }
                    }
                    s = n
                }
                None => {
                    let expect = match &o.op.0 {
                        ROp::Register(c) => {
                            let (ok, clash, dimbad) = spec.admit(&s, *c);
                            if let (true, RRes::RegErr(_) | RRes::RegAlready) = (ok, &o.op.1) {
                                if failed_multi_before {
                                    key = "C06/history:refused-after-failed-multi-descriptor-registration".to_string();
                                }
                            }
                            format!("model: accepted={} (equal descriptor registered: {}, dimension disagreement: {})", ok, clash, dimbad)
                        }
                        ROp::Unregister(c) => format!("model: currently registered = {}", s.registered.contains(c)),
                        ROp::Gather => format!("model: samples of collectors {:?}", s.registered),
                    };
                    first = format!("first disagreement at {:?} -> {:?}; {}", o.op.0, o.op.1, expect);
                    break;
                }
            }
        }
        if plan.threads.len() > 1 {
            first = format!("(concurrent history; sequential explanation in invocation order) {}", first);
        }
        let desc: Vec<String> = h.iter().map(|o| format!("{:?}->{}", o.op.0, short(&o.op.1))).collect();
        out.violations.push(Violation::new("C06/history", key, format!("registry history disagrees with the reference model: {}; collectors {:?}; history: {}", first, plan.collectors.iter().map(|c| c.iter().map(|d| format!("{}|{}|{:?}|{:?}", d.name, d.help, d.consts, d.vars)).collect::<Vec<_>>()).collect::<Vec<_>>(), desc.join(", "))));
    }
    let failed_then_reuse = h.iter().any(|o| matches!(o.op.1, RRes::RegAlready | RRes::RegErr(_)) && matches!(&o.op.0, ROp::Register(c) if plan.collectors[*c].len() > 1));
    out.probes.push(("failed_multi_descriptor_register", failed_then_reuse as u64));
    out.probes.push(("concurrent_history", (plan.threads.len() > 1) as u64));
    out.probes.push(("churned_names_over_1000", (plan.churn > 1000) as u64));
    let mut fp = crate::rng::Fp::default();
    fp.str(&serde_json::to_string(&(&plan.collectors, &plan.threads, &plan.pre, plan.churn)).unwrap());
    out.signature = out.signature.wrapping_add(fp.0);
    out
}

fn short(r: &RRes) -> String {
    match r {
        RRes::RegErr(_) => "RegErr".into(),
        RRes::Gathered(g, x) => format!("Gathered{:?}{}", g, if x.is_empty() { String::new() } else { format!("+garbage{:?}", x) }),
        o => format!("{:?}", o),
    }
}

pub struct C06;
impl Scenario for C06 {
    fn id(&self) -> &'static str {
        "C06"
    }
    fn name(&self) -> &'static str {
        "registry-admission"
    }
    fn runs(&self, tier: Tier) -> u64 {
        match tier {
            Tier::Quick => 150_000,
            Tier::Thorough => 3_000_000,
        }
    }
    fn gen(&self, seed: u64, _tier: Tier) -> Value {
        serde_json::to_value(gen_plan(seed)).unwrap()
    }
    fn run(&self, plan: &Value, mode: Mode) -> RunOut {
        let plan: RegPlan = serde_json::from_value(plan.clone()).expect("C06 plan");
        let hs = plan.env.hash_seed;
        isolated(hs, move || execute(&plan, mode))
    }
    fn shrink(&self, plan: &Value) -> Vec<Value> {
        let p: RegPlan = serde_json::from_value(plan.clone()).unwrap();
        let mut c: Vec<RegPlan> = shrink_threads(&p.threads).into_iter().map(|t| RegPlan { threads: t, ..p.clone() }).collect();
        if p.threads.len() > 1 {
            // serialise: all ops on one thread in round-robin order
            let mut all = vec![];
            let m = p.threads.iter().map(|t| t.len()).max().unwrap_or(0);
            for i in 0..m {
                for t in &p.threads {
                    if let Some(o) = t.get(i) {
                        all.push(o.clone());
                    }
                }
            }
            c.push(RegPlan { threads: vec![all], ..p.clone() });
        }
        // drop a descriptor of a multi-descriptor collector
        for ci in 0..p.collectors.len() {
            if p.collectors[ci].len() > 1 {
                for di in 0..p.collectors[ci].len() {
                    let mut n = p.collectors.clone();
                    n[ci].remove(di);
                    let idset = |c: &Vec<DescSpec>| c.iter().map(|d| d.identity()).collect::<BTreeSet<_>>();
                    if n.iter().enumerate().any(|(j, o)| j != ci && idset(o) == idset(&n[ci])) {
                        continue;
                    }
                    c.push(RegPlan { collectors: n, ..p.clone() });
                }
            }
        }
        if p.yield_in_collect {
            c.push(RegPlan { yield_in_collect: false, ..p.clone() });
        }
        // shorter earlier history
        if p.churn > 0 {
            for n in [0usize, 3, 17, 130, 1100] {
                if n < p.churn {
                    c.push(RegPlan { churn: n, ..p.clone() });
                }
            }
        }
        for i in 0..p.pre.len() {
            let mut n = p.pre.clone();
            n.remove(i);
            c.push(RegPlan { pre: n, ..p.clone() });
        }
        for e in shrink_env(&p.env) {
            c.push(RegPlan { env: e, ..p.clone() });
        }
        c.into_iter().map(|p| serde_json::to_value(p).unwrap()).collect()
    }
    fn info(&self) -> Info {
        Info {
            rule: "one run = one history of 4-14 register/unregister/gather calls over a pool of 3-6 scripted collectors with 1-3 descriptors each (2-3 names x 2 help texts x 4 constant-label sets x 3 variable-label sets, so identity clashes and dimension disagreements are frequent); 70% single-threaded, 30% from 2-3 simulated threads (optionally yielding inside Collector::collect); every outcome and every gathered sample set is checked against a reference registry (linearizability for concurrent histories); a multi-descriptor registration that fails half-way is the injected 'crash'; non-trivial = history of >=3 calls; distinct = distinct (collector pool, history, interleaving) signatures",
            assumptions: vec!["descriptors within one collector are pairwise distinct and mutually consistent, collectors have >=1 descriptor, distinct collectors have distinct descriptor sets (the statement is silent on the other cases)", "identity/dimension as defined structurally by the statement; 64-bit hash collisions not expected at this size"],
            real: vec!["prometheus::Registry, Desc::new (all code)", "parking_lot RwLock underneath the shim"],
            stubbed: vec!["thread scheduling", "lock arbitration", "user collectors (scripted, may yield inside collect)", "OS randomness for hash seeds"],
            expected_probes: vec!["failed_multi_descriptor_register", "concurrent_history"],
        }
    }
}
