//! C04 (text exposition), C13 (protobuf exposition), C17 (fallible APIs do not panic).
use crate::common::*;
use crate::compat::{self, feq, PFamily, PHist, PMetric, PSummary, PType};
use crate::driver::{Info, RunOut, Scenario, Tier, Violation};
use crate::engine::Mode;
use crate::rng::Rng;
use crate::seams::{catch, FaultyWriter, WriterPlan};
use crate::textparse;
use prometheus::*;
use serde::{Deserialize, Serialize};
use serde_json::Value;

pub const STRINGS: &[&str] = &[
    "", "plain", "with space", "back\\slash", "quo\"te", "new\nline", "cr\rlf", "\\n literal", "ends with \\", "\"", "\n", "\\", "\\\\n", "é multi ü", "日本語", "e\u{301}", "\u{301}lone", "# HELP x y", "x{y=\"z\"} 1", "a,b=c", "}", "{", "tab\there", "nul\u{0}byte", "\u{2028}ls", "\u{85}nel", "\u{feff}bom", "emoji 🦀", "trailing blank ", "\\\"",
];
pub const FLOATS: &[f64] = &[
    0.0, -0.0, 1.0, -1.0, 0.1, 1.0 / 3.0, 1e21, 1e-7, 123456789.125, 5e-324, 2.2250738585072014e-308, 1.7976931348623157e308, -1.7976931348623157e308, f64::INFINITY, f64::NEG_INFINITY, f64::NAN, 9007199254740993.0, 4.0, 0.5, 1e15, 1e16, 1e-5, 100000.0,
];

fn gen_float(r: &mut Rng) -> f64 {
    match r.below(10) {
        0..=6 => *r.pick(FLOATS),
        7 => f64::from_bits(r.next()),
        8 => (r.below(2000) as f64 - 1000.0) / 8.0,
        _ => r.below(1 << 20) as f64,
    }
}
fn gen_string(r: &mut Rng) -> String {
    if r.below(150) == 0 {
        // very long values: around the usual buffer sizes (4 KiB, 8 KiB, 64 KiB)
        let n = *r.pick(&[4095usize, 4096, 4097, 8191, 8192, 8193, 65536, 70000]);
        let esc_at = r.below(n as u64) as usize;
        return (0..n).map(|i| if i == esc_at { *r.pick(&['\\', '"', '\n', 'é']) } else { 'h' }).collect();
    }
    match r.below(12) {
        // long strings: escapable and multi-byte characters at and around positions 8, 16, 32, 64
        // (vectorised scanning works in blocks of such sizes)
        10 | 11 => {
            let n = *r.pick(&[15usize, 16, 17, 31, 32, 33, 63, 64, 65, 130]);
            let special = ['\\', '"', '\n', 'é', '\u{301}', '日'];
            let at = [r.below(n as u64) as usize, r.below(n as u64) as usize, *r.pick(&[7usize, 8, 15, 16, 31, 32])];
            (0..n).map(|i| if at.contains(&i) { *r.pick(&special) } else { (b'a' + (i % 26) as u8) as char }).collect()
        }
        0..=6 => r.pick(STRINGS).to_string(),
        7 => format!("{}{}", r.pick(STRINGS), r.pick(STRINGS)),
        _ => {
            let n = r.below(6);
            (0..n).map(|_| *r.pick(&['a', '\\', '"', '\n', 'é', ' ', 'n', '\r', '{', ','])).collect()
        }
    }
}

pub fn gen_metric(r: &mut Rng, typ: PType, label_names: &[String]) -> PMetric {
    let labels = label_names.iter().map(|n| (n.clone(), gen_string(r))).collect();
    let ts = match r.below(6) {
        0 => 1 + r.below(1_700_000_000_000) as i64,
        1 => -(1 + r.below(1000) as i64),
        2 => *r.pick(&[i64::MAX, i64::MIN, 1]),
        _ => 0,
    };
    let mut m = PMetric { labels, ts, ts_set: ts == 0 && r.chance(12), ..Default::default() };
    match typ {
        PType::Counter => m.counter = Some(gen_float(r)),
        PType::Gauge => m.gauge = Some(gen_float(r)),
        PType::Untyped => m.untyped = Some(gen_float(r)),
        PType::Histogram => {
            // (sizes sometimes cross 16 / 32 / 64: implementations may treat long lists differently)
            let nb = if r.chance(3) { *r.pick(&[17usize, 33, 65]) } else { r.below(7) as usize };
            let mut cc = 0u64;
            let mut buckets = vec![];
            let explicit_inf = nb > 0 && r.chance(25);
            for i in 0..nb {
                cc += r.below(1000);
                let ub = if explicit_inf && i == nb - 1 { f64::INFINITY } else { gen_float(r) };
                buckets.push((ub, cc));
            }
            let count = if r.chance(70) { cc + r.below(5) } else { r.below(1 << 52) };
            m.hist = Some(PHist { count, sum: gen_float(r), buckets });
        }
        PType::Summary => {
            let nq = if r.chance(3) { *r.pick(&[17usize, 33]) } else { r.below(5) as usize };
            m.summary = Some(PSummary { count: r.below(1 << 52), sum: gen_float(r), quantiles: (0..nq).map(|_| (*r.pick(&[0.5, 0.9, 0.99, 0.0, 1.0, f64::NAN]), gen_float(r))).collect() });
        }
    }
    m
}

pub fn gen_families(r: &mut Rng, types: &[PType]) -> Vec<PFamily> {
    let nf = if r.chance(1) { *r.pick(&[17usize, 33, 130]) } else { 1 + r.below(5) as usize };
    let names = ["m", "req_total", "a:b", "_x", "h9", ":c", "M_n"];
    let lnames = ["l", "a_1", "_b", "zz", "k9", "L"];
    (0..nf)
        .map(|i| {
            let typ = *r.pick(types);
            let nl = if nf > 5 { r.below(3) as usize } else { r.below(7) as usize };
            let mut ln: Vec<String> = vec![];
            for _ in 0..nl {
                let n = r.pick(&lnames).to_string();
                if !ln.contains(&n) {
                    ln.push(n);
                }
            }
            let nm = if nf <= 5 && r.chance(1) { *r.pick(&[17usize, 65, 130]) } else { 1 + r.below(4) as usize };
            let mut help = gen_string(r);
            while help.starts_with(' ') || help.starts_with('\t') {
                help.remove(0);
            }
            PFamily { name: Some(format!("{}{}", r.pick(&names), i)), help: Some(help), typ, metrics: (0..nm).map(|_| gen_metric(r, typ, &ln)).collect() }
        })
        .collect()
}

#[derive(Serialize, Deserialize, Clone, Debug)]
pub struct EncPlan {
    /// batches encoded on the same thread *before* the batch under test (their results are only
    /// required not to panic): an encoder must not carry anything over from an earlier, possibly
    /// refused or failed, call
    #[serde(default)]
    pub warmup: Vec<Warmup>,
    pub families: Vec<PFamily>,
    pub writer: WriterPlan,
    pub existing: String,
    pub seed: u64,
    /// C13: the family objects were already encoded once in an earlier, smaller state (first sample
    /// only, empty help, one label value shorter) and then grown in place: nothing remembered from the
    /// first serialisation (sizes, buffers) may leak into the second
    #[serde(default)]
    pub reuse: bool,
}
#[derive(Serialize, Deserialize, Clone, Debug)]
pub struct Warmup {
    pub families: Vec<PFamily>,
    pub writer: WriterPlan,
}

fn gen_enc_plan(seed: u64, types: &[PType]) -> EncPlan {
    let mut r = Rng::new(seed, 1);
    let families = gen_families(&mut r, types);
    let writer = match r.below(10) {
        0..=3 => WriterPlan::clean(),
        4..=6 => WriterPlan { short_pct: *r.pick(&[10u32, 50, 90]), eintr_pct: *r.pick(&[0u32, 10, 40]), fail_at: None, seed: r.next() },
        _ => WriterPlan { short_pct: *r.pick(&[0u32, 50]), eintr_pct: *r.pick(&[0u32, 20]), fail_at: Some(r.below(600)), seed: r.next() },
    };
    // earlier calls on the same thread: a valid family followed by a refused one, or a writer that
    // fails in the middle
    let mut warmup = vec![];
    for _ in 0..r.below(3) {
        let mut fams = gen_families(&mut r, types);
        if r.chance(50) {
            let i = r.below(fams.len() as u64 + 1) as usize;
            let mut bad = fams[0].clone();
            if r.chance(50) {
                bad.metrics.clear();
            } else {
                bad.name = None;
            }
            fams.insert(i, bad);
        }
        let w = if r.chance(50) { WriterPlan::clean() } else { WriterPlan { short_pct: 20, eintr_pct: 10, fail_at: Some(r.below(200)), seed: r.next() } };
        warmup.push(Warmup { families: fams, writer: w });
    }
    let reuse = r.chance(20);
    EncPlan { warmup, families, writer, existing: r.pick(&["", "prefix\n", "é", "# junk"]).to_string(), seed, reuse }
}

fn run_warmup(plan: &EncPlan, text: bool, out: &mut RunOut, prop: &str) {
    for w in &plan.warmup {
        let mfs: Vec<proto::MetricFamily> = w.families.iter().map(compat::to_proto).collect();
        let mut fw = FaultyWriter::new(w.writer.clone());
        let r = if text {
            catch(|| {
                let _ = TextEncoder::new().encode(&mfs, &mut fw);
                let _ = TextEncoder::new().encode_to_string(&mfs);
            })
        } else {
            #[cfg(feature = "pb")]
            {
                catch(|| {
                    let _ = ProtobufEncoder::new().encode(&mfs, &mut fw);
                })
            }
            #[cfg(not(feature = "pb"))]
            {
                Ok(())
            }
        };
        if let Err(p) = r {
            out.violations.push(Violation::new(&format!("{}/panic", prop), format!("{}/panic", prop), format!("an earlier encode call panicked: {}", p)));
        }
    }
    out.probes.push(("earlier_calls_on_same_thread", plan.warmup.len() as u64));
}

/// What the text format must contain for `f`: histograms get a +Inf bucket unless they have one.
fn expected_text_family(f: &PFamily) -> PFamily {
    let mut f = f.clone();
    if f.help.as_deref() == Some("") {
        f.help = None;
    }
    for m in f.metrics.iter_mut() {
        let mut n = PMetric { labels: m.labels.clone(), ts: m.ts, ..Default::default() };
        match f.typ {
            PType::Counter => n.counter = Some(m.counter.unwrap_or(0.0)),
            PType::Gauge => n.gauge = Some(m.gauge.unwrap_or(0.0)),
            PType::Untyped => n.untyped = Some(m.untyped.unwrap_or(0.0)),
            PType::Histogram => {
                let mut h = m.hist.clone().unwrap_or(PHist { count: 0, sum: 0.0, buckets: vec![] });
                if !h.buckets.iter().any(|b| b.0 == f64::INFINITY) {
                    h.buckets.push((f64::INFINITY, h.count));
                }
                n.hist = Some(h);
            }
            PType::Summary => n.summary = Some(m.summary.clone().unwrap_or(PSummary { count: 0, sum: 0.0, quantiles: vec![] })),
        }
        *m = n;
    }
    f
}

fn lines_of(f: &PFamily) -> usize {
    let mut n = 1 + f.help.as_ref().map(|h| !h.is_empty() as usize).unwrap_or(0);
    for m in &f.metrics {
        n += match f.typ {
            PType::Histogram => m.hist.as_ref().map(|h| h.buckets.len()).unwrap_or(1) + 2,
            PType::Summary => m.summary.as_ref().map(|s| s.quantiles.len()).unwrap_or(0) + 2,
            _ => 1,
        };
    }
    n
}

pub fn families_equal(a: &[PFamily], b: &[PFamily], exact_nan: bool) -> std::result::Result<(), String> {
    if a.len() != b.len() {
        return Err(format!("{} families, expected {}", a.len(), b.len()));
    }
    let fo = |x: Option<f64>, y: Option<f64>| match (x, y) {
        (Some(x), Some(y)) => feq(x, y, exact_nan),
        (None, None) => true,
        _ => false,
    };
    for (fa, fb) in a.iter().zip(b) {
        if fa.name != fb.name || fa.help != fb.help || fa.typ != fb.typ {
            return Err(format!("family header {:?}/{:?}/{:?}, expected {:?}/{:?}/{:?}", fa.name, fa.help, fa.typ, fb.name, fb.help, fb.typ));
        }
        if fa.metrics.len() != fb.metrics.len() {
            return Err(format!("family {:?}: {} samples, expected {}", fa.name, fa.metrics.len(), fb.metrics.len()));
        }
        for (ma, mb) in fa.metrics.iter().zip(&fb.metrics) {
            let n = &fa.name;
            if ma.labels != mb.labels {
                return Err(format!("family {:?}: labels {:?}, expected {:?}", n, ma.labels, mb.labels));
            }
            if ma.ts != mb.ts {
                return Err(format!("family {:?}: timestamp {}, expected {}", n, ma.ts, mb.ts));
            }
            if !fo(ma.counter, mb.counter) || !fo(ma.gauge, mb.gauge) || !fo(ma.untyped, mb.untyped) {
                return Err(format!("family {:?} labels {:?}: value {:?}/{:?}/{:?}, expected {:?}/{:?}/{:?}", n, ma.labels, ma.counter, ma.gauge, ma.untyped, mb.counter, mb.gauge, mb.untyped));
            }
            match (&ma.hist, &mb.hist) {
                (Some(x), Some(y)) => {
                    if x.count != y.count || !feq(x.sum, y.sum, exact_nan) || x.buckets.len() != y.buckets.len() || x.buckets.iter().zip(&y.buckets).any(|(p, q)| !feq(p.0, q.0, exact_nan) || p.1 != q.1) {
                        return Err(format!("family {:?}: histogram {:?}, expected {:?}", n, x, y));
                    }
                }
                (None, None) => {}
                (x, y) => return Err(format!("family {:?}: histogram payload {:?}, expected {:?}", n, x, y)),
            }
            match (&ma.summary, &mb.summary) {
                (Some(x), Some(y)) => {
                    if x.count != y.count || !feq(x.sum, y.sum, exact_nan) || x.quantiles.len() != y.quantiles.len() || x.quantiles.iter().zip(&y.quantiles).any(|(p, q)| !feq(p.0, q.0, exact_nan) || !feq(p.1, q.1, exact_nan)) {
                        return Err(format!("family {:?}: summary {:?}, expected {:?}", n, x, y));
                    }
                }
                (None, None) => {}
                (x, y) => return Err(format!("family {:?}: summary payload {:?}, expected {:?}", n, x, y)),
            }
        }
    }
    Ok(())
}

fn plan_signature(p: &EncPlan) -> u64 {
    let mut fp = crate::rng::Fp::default();
    fp.str(&serde_json::to_string(&(&p.families, &p.writer.fail_at, p.writer.short_pct, p.writer.eintr_pct, p.reuse)).unwrap());
    fp.0
}

fn writer_faults(out: &mut RunOut, w: &FaultyWriter) {
    out.faults.push(("short_write", w.short_writes));
    out.faults.push(("eintr", w.eintrs));
    out.faults.push(("write_error", w.hard_errors));
}

// =============================================================================== C04
fn execute_c04(plan: &EncPlan) -> RunOut {
    let mut out = RunOut::default();
    out.nontrivial = plan.families.iter().map(|f| f.metrics.len()).sum::<usize>() >= 2;
    out.signature = plan_signature(plan);
    out.faulty_cfg = plan.writer != WriterPlan::clean();
    let mfs: Vec<proto::MetricFamily> = plan.families.iter().map(compat::to_proto).collect();
    // what the encoder is given, seen through the canonical view (a custom collector can hand
    // in anything with valid names)
    let given = compat::families_of(&mfs);
    let enc = TextEncoder::new();
    run_warmup(plan, true, &mut out, "C04");
    let v = |c: &str, k: &str, m: String| Violation::new(&format!("C04/{}", c), format!("C04/{}", k), m);
    let mut clean: Vec<u8> = vec![];
    match catch(|| enc.encode(&mfs, &mut clean)) {
        Err(p) => {
            out.violations.push(v("panic", "panic", format!("encode panicked: {}", p)));
            return out;
        }
        Ok(Err(e)) => {
            out.violations.push(v("refused", "refused", format!("encode refused families with valid names: {}", e)));
            return out;
        }
        Ok(Ok(())) => {}
    }
    {
        let mut fp = crate::rng::Fp::default();
        fp.bytes(&clean);
        out.fingerprint = fp.0;
    }
    let text = match String::from_utf8(clean.clone()) {
        Ok(t) => t,
        Err(_) => {
            out.violations.push(v("utf8", "utf8", "output is not UTF-8".into()));
            return out;
        }
    };
    match textparse::parse(&text) {
        Err(e) => out.violations.push(v("parse", "parse", format!("independent parser rejects the output: {}; output {:?}", e, text.chars().take(400).collect::<String>()))),
        Ok((fams, nlines)) => {
            let want: Vec<PFamily> = given.iter().map(expected_text_family).collect();
            if let Err(e) = families_equal(&fams, &want, false) {
                out.violations.push(v("roundtrip", "roundtrip", format!("parsed exposition differs from the encoded families: {}", e)));
            }
            let wl: usize = want.iter().map(lines_of).sum();
            if nlines != wl {
                out.violations.push(v("lines", "lines", format!("exposition has {} lines, the families account for {}", nlines, wl)));
            }
        }
    }
    // the three entry points agree and only append
    match catch(|| enc.encode_to_string(&mfs)) {
        Ok(Ok(s)) if s.as_bytes() == &clean[..] => {}
        o => out.violations.push(v("entrypoints", "entrypoints", format!("encode_to_string disagrees with encode: {:?}", o.map(|r| r.map(|s| s.len()).map_err(|e| e.to_string()))))),
    }
    let mut buf = plan.existing.clone();
    match catch(|| enc.encode_utf8(&mfs, &mut buf)) {
        Ok(Ok(())) if buf.as_bytes().starts_with(plan.existing.as_bytes()) && &buf.as_bytes()[plan.existing.len()..] == &clean[..] => {}
        o => out.violations.push(v("entrypoints", "entrypoints", format!("encode_utf8 did not append exactly the bytes of encode to the existing buffer ({:?})", o.map(|r| r.map_err(|e| e.to_string()))))),
    }
    let mut pre: Vec<u8> = plan.existing.as_bytes().to_vec();
    match catch(|| enc.encode(&mfs, &mut pre)) {
        Ok(Ok(())) if pre.starts_with(plan.existing.as_bytes()) && &pre[plan.existing.len()..] == &clean[..] => {}
        _ => out.violations.push(v("entrypoints", "entrypoints", "encode into a non-empty Vec did not append exactly the same bytes".into())),
    }
    // a batch that is refused half-way (a family without samples at a seed-chosen position): both
    // entry points that write into the caller's storage leave what was there and append the same bytes
    {
        let mut bad = mfs.clone();
        let mut empty = proto::MetricFamily::default();
        empty.set_name("zz_no_samples".to_string());
        empty.set_help("h".to_string());
        empty.set_field_type(proto::MetricType::GAUGE);
        let at = (plan.seed % (bad.len() as u64 + 1)) as usize;
        bad.insert(at, empty);
        let mut via_write: Vec<u8> = plan.existing.as_bytes().to_vec();
        let r1 = catch(|| enc.encode(&bad, &mut via_write).is_ok());
        let mut via_string = plan.existing.clone();
        let r2 = catch(|| enc.encode_utf8(&bad, &mut via_string).is_ok());
        match (r1, r2) {
            (Ok(false), Ok(false)) => {
                if !via_write.starts_with(plan.existing.as_bytes()) || via_string.as_bytes() != &via_write[..] {
                    out.violations.push(v("entrypoints", "entrypoints-after-refusal", format!("a refused batch left {} bytes in the Vec given to encode and {} bytes in the String given to encode_utf8 (both held {} bytes before); they must hold the same bytes and keep what was there", via_write.len(), via_string.len(), plan.existing.len())));
                }
            }
            (a, b) => out.violations.push(v("refuse", "refuse", format!("a family without samples in the batch: encode -> {:?}, encode_utf8 -> {:?} (true = Ok)", a, b))),
        }
    }
    // the sink misbehaves
    let mut w = FaultyWriter::new(plan.writer.clone());
    let r = catch(|| enc.encode(&mfs, &mut w));
    writer_faults(&mut out, &w);
    match (r, plan.writer.fail_at) {
        (Err(p), _) => out.violations.push(v("panic", "panic", format!("encode into a misbehaving writer panicked: {}", p))),
        (Ok(Ok(())), None) => {
            if w.out != clean {
                out.violations.push(v("sink", "sink", "short writes / EINTR changed the bytes delivered".into()));
            }
        }
        (Ok(Err(e)), None) => out.violations.push(v("sink", "sink", format!("short writes / EINTR made encode fail: {}", e))),
        (Ok(res), Some(k)) => {
            if !clean.starts_with(&w.out) {
                out.violations.push(v("sink", "sink", format!("bytes delivered before the write error at {} are not a prefix of the fault-free output", k)));
            }
            if (k as usize) < clean.len() && res.is_ok() {
                out.violations.push(v("sink", "sink", format!("writer failed after {} bytes but encode returned Ok", k)));
            }
            if (k as usize) >= clean.len() && (res.is_err() || w.out != clean) {
                out.violations.push(v("sink", "sink", "writer never failed but encode did".into()));
            }
        }
    }
    out.probes.push(("families_encoded", plan.families.len() as u64));
    out.probes.push(("special_floats", plan.families.iter().flat_map(|f| f.metrics.iter()).filter(|m| [m.counter, m.gauge].iter().flatten().any(|x| !x.is_finite())).count() as u64));
    out
}

pub struct C04;
impl Scenario for C04 {
    fn id(&self) -> &'static str {
        "C04"
    }
    fn name(&self) -> &'static str {
        "text-encoder"
    }
    fn runs(&self, tier: Tier) -> u64 {
        match tier {
            Tier::Quick => 120_000,
            Tier::Thorough => 10_000_000,
        }
    }
    fn gen(&self, seed: u64, _tier: Tier) -> Value {
        serde_json::to_value(gen_enc_plan(seed, &[PType::Counter, PType::Gauge, PType::Histogram, PType::Summary])).unwrap()
    }
    fn run(&self, plan: &Value, _mode: Mode) -> RunOut {
        let plan: EncPlan = serde_json::from_value(plan.clone()).expect("C04 plan");
        // a fresh OS thread per case: thread-local state of an encoder cannot leak between cases
        isolated(plan.seed, move || execute_c04(&plan))
    }
    fn shrink(&self, plan: &Value) -> Vec<Value> {
        shrink_enc(plan)
    }
    fn info(&self) -> Info {
        Info {
            rule: "one case = 1-5 generated families (counter, gauge, histogram, summary; adversarial Unicode help and label values incl. backslash, quote, LF, CR, multi-byte, lone combining marks; every f64 class; 0-6 labels, buckets with/without explicit +Inf, quantiles, zero/non-zero/negative timestamps) encoded through encode / encode_utf8 / encode_to_string and into a fault-injecting writer (short writes, EINTR, hard error at byte k); the bytes are read back by an independent parser and compared field by field; non-trivial = >=2 samples; distinct = distinct (families, writer fault plan)",
            assumptions: vec!["help texts do not start with a blank (the format cannot represent that)", "names are valid and label names distinct, no label called le/quantile (the statement quantifies over valid names)", "bucket and sample counts below 2^53 (the format prints them as floats)", "no schedule dimension: the injected environment fault is the Write sink"],
            real: vec!["prometheus::TextEncoder (encode, encode_utf8, encode_to_string)"],
            stubbed: vec!["the io::Write sink (FaultyWriter)"],
            expected_probes: vec!["families_encoded", "special_floats"],
        }
    }
}

fn shrink_enc(plan: &Value) -> Vec<Value> {
    let p: EncPlan = serde_json::from_value(plan.clone()).unwrap();
    let mut c = vec![];
    for i in 0..p.families.len() {
        if p.families.len() > 1 {
            let mut n = p.clone();
            n.families.remove(i);
            c.push(n);
        }
        for j in 0..p.families[i].metrics.len() {
            if p.families[i].metrics.len() > 1 {
                let mut n = p.clone();
                n.families[i].metrics.remove(j);
                c.push(n);
            }
            for l in 0..p.families[i].metrics[j].labels.len() {
                let mut n = p.clone();
                for m in n.families[i].metrics.iter_mut() {
                    if l < m.labels.len() {
                        m.labels.remove(l);
                    }
                }
                c.push(n);
            }
            if p.families[i].metrics[j].ts != 0 {
                let mut n = p.clone();
                n.families[i].metrics[j].ts = 0;
                c.push(n);
            }
            if let Some(h) = &p.families[i].metrics[j].hist {
                for b in 0..h.buckets.len() {
                    let mut n = p.clone();
                    n.families[i].metrics[j].hist.as_mut().unwrap().buckets.remove(b);
                    c.push(n);
                }
            }
        }
        if p.families[i].help.as_deref().map(|h| !h.is_empty() && h != "h").unwrap_or(false) {
            let mut n = p.clone();
            n.families[i].help = Some("h".into());
            c.push(n);
        }
    }
    if p.writer != WriterPlan::clean() {
        let mut n = p.clone();
        n.writer = WriterPlan::clean();
        c.push(n);
    }
    for i in 0..p.warmup.len() {
        let mut n = p.clone();
        n.warmup.remove(i);
        c.push(n);
        for j in 0..p.warmup[i].families.len() {
            if p.warmup[i].families.len() > 1 {
                let mut n = p.clone();
                n.warmup[i].families.remove(j);
                c.push(n);
            }
        }
        if p.warmup[i].writer != WriterPlan::clean() {
            let mut n = p.clone();
            n.warmup[i].writer = WriterPlan::clean();
            c.push(n);
        }
    }
    c.into_iter().map(|p| serde_json::to_value(p).unwrap()).collect()
}

// =============================================================================== C13
#[cfg(feature = "pb")]
fn execute_c13(plan: &EncPlan) -> RunOut {
    use crate::pbdecode;
    let mut out = RunOut::default();
    out.nontrivial = plan.families.iter().map(|f| f.metrics.len()).sum::<usize>() >= 2;
    out.signature = plan_signature(plan);
    out.faulty_cfg = plan.writer != WriterPlan::clean();
    let enc = ProtobufEncoder::new();
    let mfs: Vec<proto::MetricFamily> = if plan.reuse {
        // earlier state of the same objects: first sample only (one label value cut short), no help
        let small: Vec<PFamily> = plan
            .families
            .iter()
            .map(|f| {
                let mut s = f.clone();
                s.metrics.truncate(1);
                s.help = Some(String::new());
                if let Some(l) = s.metrics.first_mut().and_then(|m| m.labels.first_mut()) {
                    l.1 = l.1.chars().take(1).collect();
                }
                s
            })
            .collect();
        let mut objs: Vec<proto::MetricFamily> = small.iter().map(compat::to_proto).collect();
        let _ = catch(|| enc.encode(&objs, &mut Vec::new()));
        for (o, full) in objs.iter_mut().zip(plan.families.iter()) {
            let fresh = compat::to_proto(full);
            // keep the already-serialised first sample object (a clone carries whatever it cached),
            // restore its label value, append the remaining samples, set the help text
            let mut ms = o.get_metric().to_vec();
            if let (Some(m0), Some(f0)) = (ms.first_mut(), fresh.get_metric().first()) {
                m0.set_label(f0.get_label().to_vec());
            }
            ms.extend(fresh.get_metric().iter().skip(1).cloned());
            o.set_metric(ms);
            if let Some(h) = &full.help {
                o.set_help(h.clone());
            }
        }
        objs
    } else {
        plan.families.iter().map(compat::to_proto).collect()
    };
    let given = compat::families_of(&mfs);
    run_warmup(plan, false, &mut out, "C13");
    let v = |c: &str, m: String| Violation::new(&format!("C13/{}", c), format!("C13/{}", c), m);
    let first_bad = given.iter().position(|f| f.name.as_deref().unwrap_or("").is_empty() || f.metrics.is_empty());
    let mut clean: Vec<u8> = vec![];
    let r = catch(|| enc.encode(&mfs, &mut clean));
    match (&r, first_bad) {
        (Err(p), _) => {
            out.violations.push(v("panic", format!("encode panicked: {}", p)));
            return out;
        }
        (Ok(Ok(())), Some(i)) => out.violations.push(v("refuse", format!("family {} has no name or no samples but encode returned Ok", i))),
        (Ok(Err(e)), None) => {
            out.violations.push(v("refused", format!("encode refused well-formed families: {}", e)));
            return out;
        }
        _ => {}
    }
    {
        let mut fp = crate::rng::Fp::default();
        fp.bytes(&clean);
        out.fingerprint = fp.0;
    }
    let expect: &[PFamily] = match first_bad {
        Some(i) => &given[..i],
        None => &given[..],
    };
    match pbdecode::decode_stream(&clean) {
        Err(e) => out.violations.push(v("decode", format!("independent decoder rejects the stream: {}", e))),
        Ok(fams) => {
            if let Err(e) = families_equal(&fams, expect, true) {
                out.violations.push(v("roundtrip", format!("decoded stream differs from the encoded families: {}", e)));
            }
        }
    }
    if first_bad.is_none() {
        let mut w = FaultyWriter::new(plan.writer.clone());
        let r = catch(|| enc.encode(&mfs, &mut w));
        writer_faults(&mut out, &w);
        match (r, plan.writer.fail_at) {
            (Err(p), _) => out.violations.push(v("panic", format!("encode into a misbehaving writer panicked: {}", p))),
            (Ok(Ok(())), None) => {
                if w.out != clean {
                    out.violations.push(v("sink", "short writes / EINTR changed the bytes delivered".into()));
                }
            }
            (Ok(Err(e)), None) => out.violations.push(v("sink", format!("short writes / EINTR made encode fail: {}", e))),
            (Ok(res), Some(k)) => {
                if !clean.starts_with(&w.out) {
                    out.violations.push(v("sink", format!("bytes delivered before the write error at {} are not a prefix of the fault-free output", k)));
                }
                if (k as usize) < clean.len() && res.is_ok() {
                    out.violations.push(v("sink", format!("writer failed after {} bytes but encode returned Ok", k)));
                }
            }
        }
    }
    out.probes.push(("families_encoded", plan.families.len() as u64));
    out.probes.push(("refused_family_cases", first_bad.is_some() as u64));
    out
}
#[cfg(not(feature = "pb"))]
fn execute_c13(_plan: &EncPlan) -> RunOut {
    RunOut::default()
}

fn gen_c13_plan(seed: u64) -> EncPlan {
    let mut p = gen_enc_plan(seed, &[PType::Counter, PType::Gauge, PType::Histogram, PType::Summary, PType::Untyped]);
    let mut r = Rng::new(seed, 9);
    if r.chance(12) {
        let i = r.below(p.families.len() as u64) as usize;
        match r.below(3) {
            0 => p.families[i].name = None,
            1 => p.families[i].name = Some(String::new()),
            _ => p.families[i].metrics.clear(),
        }
    }
    if p.families.len() >= 2 && r.chance(10) {
        // two adjacent families with one name (two registries gathered into one batch): both are written
        let i = r.below(p.families.len() as u64 - 1) as usize;
        p.families[i + 1].name = p.families[i].name.clone();
    }
    if r.chance(10) {
        // payload of another type / missing payload: the wire format must still carry what is there
        let i = r.below(p.families.len() as u64) as usize;
        if let Some(m) = p.families[i].metrics.first_mut() {
            m.gauge = Some(1.5);
            if r.chance(50) {
                m.counter = None;
            }
        }
    }
    p
}

pub struct C13;
impl Scenario for C13 {
    fn id(&self) -> &'static str {
        "C13"
    }
    fn name(&self) -> &'static str {
        "protobuf-encoder"
    }
    fn runs(&self, tier: Tier) -> u64 {
        match tier {
            Tier::Quick => 200_000,
            Tier::Thorough => 10_000_000,
        }
    }
    fn gen(&self, seed: u64, _tier: Tier) -> Value {
        serde_json::to_value(gen_c13_plan(seed)).unwrap()
    }
    fn run(&self, plan: &Value, _mode: Mode) -> RunOut {
        let plan: EncPlan = serde_json::from_value(plan.clone()).expect("C13 plan");
        isolated(plan.seed, move || execute_c13(&plan))
    }
    fn shrink(&self, plan: &Value) -> Vec<Value> {
        shrink_enc(plan)
    }
    fn info(&self) -> Info {
        Info {
            rule: "one case = 1-5 generated families of every metric type (arbitrary Unicode strings, every f64 class bit-exact incl. NaN payloads, labels, buckets, quantiles, timestamps; 12% with a family lacking name or samples; 10% with foreign/missing payloads) written by ProtobufEncoder, clean and into a fault-injecting writer; the stream is decoded by an independent wire decoder (unknown fields, wrong wire types, trailing bytes are errors) and compared field by field; non-trivial = >=2 samples; distinct = distinct (families, writer fault plan)",
            assumptions: vec!["default (protobuf) feature build", "no schedule dimension: the injected environment fault is the Write sink"],
            real: vec!["prometheus::ProtobufEncoder, protobuf crate serialisation"],
            stubbed: vec!["the io::Write sink (FaultyWriter)"],
            expected_probes: vec!["families_encoded", "refused_family_cases"],
        }
    }
}

// =============================================================================== C17
#[derive(Serialize, Deserialize, Clone, Debug)]
pub enum Call {
    /// both encoders on arbitrary families (every MetricType, missing names/samples/payloads)
    Encode { families: Vec<PFamily>, writer: WriterPlan },
    Linear { #[serde(with = "compat::fbits")] start: f64, #[serde(with = "compat::fbits")] width: f64, count: usize },
    Exponential { #[serde(with = "compat::fbits")] start: f64, #[serde(with = "compat::fbits")] factor: f64, count: usize },
    Buckets { #[serde(with = "compat::fbits::list")] bounds: Vec<f64>, vec: bool },
    Construct(crate::scen::descs::Creation),
    /// vector requests with arbitrary cardinality / map keys, then removes
    VecOps { labels: Vec<String>, values: Vec<Vec<String>>, maps: Vec<Vec<(String, String)>> },
    Registry { prefix: Option<String>, labels: Vec<(String, String)>, dup_register: bool },
}
#[derive(Serialize, Deserialize, Clone, Debug)]
pub struct ApiPlan {
    pub calls: Vec<Call>,
}

fn gen_api_plan(seed: u64) -> ApiPlan {
    let mut r = Rng::new(seed, 1);
    let n = 1 + r.below(4) as usize;
    let fl = |r: &mut Rng| *r.pick(&[0.0, -0.0, 1.0, -1.0, 0.5, 2.0, 1.0000001, f64::NAN, f64::INFINITY, f64::NEG_INFINITY, 1e308, 5e-324, -2.5, 10.0]);
    let calls = (0..n)
        .map(|_| match r.below(7) {
            0 => {
                let mut fams = gen_families(&mut r, &[PType::Counter, PType::Gauge, PType::Histogram, PType::Summary, PType::Untyped]);
                if r.chance(30) {
                    let i = r.below(fams.len() as u64) as usize;
                    match r.below(4) {
                        0 => fams[i].name = None,
                        1 => fams[i].metrics.clear(),
                        2 => {
                            for m in fams[i].metrics.iter_mut() {
                                *m = PMetric { labels: m.labels.clone(), ..Default::default() };
                            }
                        }
                        _ => fams[i].name = Some(gen_string(&mut r)),
                    }
                }
                let writer = if r.chance(50) { WriterPlan::clean() } else { WriterPlan { short_pct: 30, eintr_pct: 10, fail_at: Some(r.below(300)), seed: r.next() } };
                Call::Encode { families: fams, writer }
            }
            1 => Call::Linear { start: fl(&mut r), width: fl(&mut r), count: r.below(66) as usize },
            2 => Call::Exponential { start: fl(&mut r), factor: fl(&mut r), count: r.below(66) as usize },
            3 => {
                let nb = r.below(6) as usize;
                Call::Buckets { bounds: (0..nb).map(|_| fl(&mut r)).collect(), vec: r.chance(40) }
            }
            4 => {
                let mut rr = Rng::new(r.next(), 1);
                let p: crate::scen::descs::NamesPlan = serde_json::from_value(crate::scen::descs::C09.gen(rr.next(), Tier::Quick)).unwrap();
                Call::Construct(p.creations[0].clone())
            }
            5 => {
                let nl = r.below(4) as usize;
                let labels: Vec<String> = ["a", "b", "c"][..nl.min(3)].iter().map(|s| s.to_string()).collect();
                let values = (0..1 + r.below(4)).map(|_| (0..r.below(5)).map(|_| gen_string(&mut r)).collect()).collect();
                let maps = (0..r.below(4)).map(|_| (0..r.below(4)).map(|_| (r.pick(&["a", "b", "c", "d", ""]).to_string(), gen_string(&mut r))).collect()).collect();
                Call::VecOps { labels, values, maps }
            }
            _ => Call::Registry {
                prefix: if r.chance(60) { Some(gen_string(&mut r)) } else { None },
                labels: (0..r.below(3)).map(|_| (gen_string(&mut r), gen_string(&mut r))).collect(),
                dup_register: r.chance(50),
            },
        })
        .collect();
    ApiPlan { calls }
}

fn execute_c17(plan: &ApiPlan) -> RunOut {
    use std::collections::HashMap;
    let mut out = RunOut::default();
    out.nontrivial = true;
    let mut fp = crate::rng::Fp::default();
    fp.str(&serde_json::to_string(&plan.calls).unwrap());
    out.signature = fp.0;
    let mut calls = 0u64;
    let mut errs = 0u64;
    let mut vio: Vec<Violation> = vec![];
    let mut guard = |what: &str, must_err: bool, r: std::result::Result<bool, String>| {
        // r: Ok(true) = call returned Ok, Ok(false) = call returned Err, Err = panic
        calls += 1;
        match r {
            Err(p) => vio.push(Violation::new("C17/panic", format!("C17/panic:{}", what), format!("{} panicked instead of returning Err: {}", what, p))),
            Ok(true) if must_err => vio.push(Violation::new("C17/accepted", format!("C17/accepted:{}", what), format!("{} returned Ok for arguments the statement names as invalid", what))),
            Ok(false) => errs += 1,
            _ => {}
        }
    };
    for c in &plan.calls {
        match c {
            Call::Encode { families, writer } => {
                let mfs: Vec<proto::MetricFamily> = families.iter().map(compat::to_proto).collect();
                let given = compat::families_of(&mfs);
                let bad = given.iter().any(|f| f.name.as_deref().unwrap_or("").is_empty() || f.metrics.is_empty());
                let has_untyped = given.iter().any(|f| f.typ == PType::Untyped);
                let what_t = if has_untyped { "TextEncoder::encode(UNTYPED family)" } else { "TextEncoder::encode" };
                guard(what_t, bad, catch(|| TextEncoder::new().encode(&mfs, &mut Vec::new()).is_ok()));
                guard(what_t, false, catch(|| TextEncoder::new().encode_to_string(&mfs).is_ok()));
                let mut w = FaultyWriter::new(writer.clone());
                guard(what_t, false, catch(|| TextEncoder::new().encode(&mfs, &mut w).is_ok()));
                #[cfg(feature = "pb")]
                {
                    guard("ProtobufEncoder::encode", bad, catch(|| ProtobufEncoder::new().encode(&mfs, &mut Vec::new()).is_ok()));
                    let mut w = FaultyWriter::new(writer.clone());
                    guard("ProtobufEncoder::encode", false, catch(|| ProtobufEncoder::new().encode(&mfs, &mut w).is_ok()));
                }
            }
            Call::Linear { start, width, count } => guard("linear_buckets", *count < 1 || *width <= 0.0, catch(|| linear_buckets(*start, *width, *count).is_ok())),
            Call::Exponential { start, factor, count } => guard("exponential_buckets", *count < 1 || *start <= 0.0 || *factor <= 1.0, catch(|| exponential_buckets(*start, *factor, *count).is_ok())),
            Call::Buckets { bounds, vec } => {
                // not strictly increasing numbers (NaN anywhere included): the acceptance rule of C08
                let unsorted = bounds.iter().any(|x| x.is_nan()) || bounds.windows(2).any(|w| !(w[0] < w[1]));
                let o = HistogramOpts::new("h", "help").buckets(bounds.clone());
                if *vec {
                    guard("HistogramVec::new", unsorted, catch(|| HistogramVec::new(o, &["l"]).map(|v| v.get_metric_with_label_values(&["x"]).map(|h| h.observe(1.0)).is_ok()).unwrap_or(false)));
                } else {
                    guard("Histogram::with_opts", unsorted, catch(|| Histogram::with_opts(o).map(|h| h.observe(f64::NAN)).is_ok()));
                }
            }
            Call::Construct(cr) => {
                use crate::scen::descs::CKind;
                let mut consts = HashMap::new();
                for (k, v) in &cr.consts {
                    consts.insert(k.clone(), v.clone());
                }
                let opts = Opts::new(cr.name.clone(), cr.help.clone()).namespace(cr.namespace.clone()).subsystem(cr.subsystem.clone()).const_labels(consts.clone());
                let names: Vec<&str> = cr.vars.iter().map(|s| s.as_str()).collect();
                let what = format!("{:?} constructor", cr.kind);
                let r = catch(|| match cr.kind {
                    CKind::Counter => Counter::with_opts(opts.clone()).is_ok() & IntCounter::with_opts(opts.clone()).is_ok(),
                    CKind::IntGauge => IntGauge::with_opts(opts.clone()).is_ok() & Gauge::with_opts(opts.clone()).is_ok(),
                    CKind::Histogram => Histogram::with_opts(HistogramOpts::from(opts.clone())).is_ok(),
                    CKind::CounterVec => CounterVec::new(opts.clone(), &names).is_ok() & IntGaugeVec::new(opts.clone(), &names).is_ok(),
                    // (a histogram vector checks the reserved name `le` when its first child is built)
                    CKind::HistogramVec => HistogramVec::new(HistogramOpts::from(opts.clone()), &names).and_then(|v| v.get_metric_with_label_values(&names.iter().map(|_| "x").collect::<Vec<_>>()).map(|_| ())).is_ok(),
                    CKind::Desc => prometheus::core::Desc::new(cr.name.clone(), cr.help.clone(), cr.vars.clone(), consts.clone()).is_ok(),
                    CKind::Pulling => PullingGauge::new(cr.name.clone(), cr.help.clone(), Box::new(|| 0.0)).is_ok(),
                });
                // the statement's naming rules (C09) name these arguments invalid: Err demanded, not only "no panic"
                guard(&what, !crate::scen::descs::model_accepts(cr), r);
                if cr.path == 2 {
                    // options that carry variable labels handed to a scalar constructor: any answer but a panic
                    let o = opts.clone().variable_label("vl");
                    guard("scalar constructor given variable labels", false, catch(|| Counter::with_opts(o.clone()).is_ok() | IntGauge::with_opts(o.clone()).is_ok() | Histogram::with_opts(HistogramOpts::from(o.clone())).is_ok()));
                }
            }
            Call::VecOps { labels, values, maps } => {
                let names: Vec<&str> = labels.iter().map(|s| s.as_str()).collect();
                let cv = match IntCounterVec::new(Opts::new("v", "help"), &names) {
                    Ok(v) => v,
                    Err(_) => continue,
                };
                let hv = HistogramVec::new(HistogramOpts::new("hv", "help"), &names).unwrap();
                for vals in values {
                    let vs: Vec<&str> = vals.iter().map(|s| s.as_str()).collect();
                    let wrong = vs.len() != names.len();
                    guard("get_metric_with_label_values", wrong, catch(|| cv.get_metric_with_label_values(&vs).is_ok()));
                    guard("get_metric_with_label_values", wrong, catch(|| hv.get_metric_with_label_values(&vs).is_ok()));
                    guard("remove_label_values", wrong, catch(|| cv.remove_label_values(&vs).is_ok()));
                    guard("remove_label_values", true, catch(|| cv.remove_label_values(&vs).is_ok()));
                }
                // maps that agree with an EXISTING child on every declared name but carry an extra key,
                // or lack one name: must be refused by lookup and by removal alike
                for vals in values {
                    if vals.len() != names.len() || names.is_empty() {
                        continue;
                    }
                    let vs: Vec<&str> = vals.iter().map(|s| s.as_str()).collect();
                    let _ = cv.get_metric_with_label_values(&vs);
                    let mut m: HashMap<&str, &str> = HashMap::new();
                    for (n, v) in names.iter().zip(vs.iter()) {
                        m.insert(n, v);
                    }
                    m.insert("zz_extra", "x");
                    guard("get_metric_with(extra key, existing child)", true, catch(|| cv.get_metric_with(&m).is_ok()));
                    guard("remove(extra key, existing child)", true, catch(|| cv.remove(&m).is_ok()));
                    m.remove("zz_extra");
                    let first = names[0];
                    m.remove(first);
                    guard("get_metric_with(missing key, existing child)", true, catch(|| cv.get_metric_with(&m).is_ok()));
                    guard("remove(missing key, existing child)", true, catch(|| cv.remove(&m).is_ok()));
                    m.insert("zz_other", "x");
                    guard("get_metric_with(renamed key, existing child)", true, catch(|| cv.get_metric_with(&m).is_ok()));
                    // the child is still there and still removable with the right labels
                    guard("remove_label_values(existing child)", false, catch(|| cv.remove_label_values(&vs).is_ok()));
                }
                // a local view that has a child cached while the child is removed through the vector itself:
                // its own removal finds nothing to remove
                for vals in values {
                    if vals.len() != names.len() {
                        continue;
                    }
                    let vs: Vec<&str> = vals.iter().map(|s| s.as_str()).collect();
                    let mut lc = cv.local();
                    lc.with_label_values(&vs).inc();
                    let mut lh = hv.local();
                    lh.with_label_values(&vs).observe(1.0);
                    let _ = cv.remove_label_values(&vs);
                    let _ = hv.remove_label_values(&vs);
                    guard("LocalIntCounterVec::remove_label_values(child removed elsewhere)", true, catch(|| lc.remove_label_values(&vs).is_ok()));
                    guard("LocalHistogramVec::remove_label_values(child removed elsewhere)", true, catch(|| lh.remove_label_values(&vs).is_ok()));
                }
                for pairs in maps {
                    let mut m: HashMap<&str, &str> = HashMap::new();
                    for (k, v) in pairs {
                        m.insert(k.as_str(), v.as_str());
                    }
                    let wrong = m.len() != names.len() || names.iter().any(|n| !m.contains_key(n));
                    guard("get_metric_with", wrong, catch(|| cv.get_metric_with(&m).is_ok()));
                    guard("remove", wrong, catch(|| cv.remove(&m).is_ok()));
                    guard("remove", true, catch(|| cv.remove(&m).is_ok()));
                }
            }
            Call::Registry { prefix, labels, dup_register } => {
                let mut m = HashMap::new();
                for (k, v) in labels {
                    m.insert(k.clone(), v.clone());
                }
                let empty_prefix = prefix.as_deref() == Some("");
                let reg = catch(|| Registry::new_custom(prefix.clone(), if m.is_empty() { None } else { Some(m.clone()) }));
                guard("Registry::new_custom", empty_prefix, reg.as_ref().map(|r| r.is_ok()).map_err(|e| e.clone()));
                if let Ok(Ok(reg)) = reg {
                    let c = IntCounter::new("c17_c", "help").unwrap();
                    guard("Registry::unregister", true, catch(|| reg.unregister(Box::new(c.clone())).is_ok()));
                    guard("Registry::register", false, catch(|| reg.register(Box::new(c.clone())).is_ok()));
                    if *dup_register {
                        guard("Registry::register", true, catch(|| reg.register(Box::new(c.clone())).is_ok()));
                    }
                    guard("Registry::gather+encode", false, catch(|| TextEncoder::new().encode_to_string(&reg.gather()).is_ok()));
                    guard("Registry::unregister", false, catch(|| reg.unregister(Box::new(c.clone())).is_ok()));
                    guard("Registry::unregister", true, catch(|| reg.unregister(Box::new(c.clone())).is_ok()));
                    // collectors with several descriptors: a refused call must not change what the next
                    // call is answered ({a} registered; {a,b} is not; {a,c} clashes with a)
                    use crate::scen::registry::{make_collector, DescSpec};
                    let d = |n: &str| DescSpec { name: n.to_string(), help: "help".into(), consts: vec![], vars: vec![] };
                    let mk = |ds: &[DescSpec], i: usize| Box::new(make_collector(ds, i, false).expect("scripted collector"));
                    guard("Registry::register({a})", false, catch(|| reg.register(mk(&[d("c17_a")], 0)).is_ok()));
                    guard("Registry::unregister({a,b}) which was never registered", true, catch(|| reg.unregister(mk(&[d("c17_a"), d("c17_b")], 1)).is_ok()));
                    guard("Registry::register({a,c}) while {a} is registered", true, catch(|| reg.register(mk(&[d("c17_a"), d("c17_c")], 2)).is_ok()));
                    guard("Registry::register({c,a}) while {a} is registered", true, catch(|| reg.register(mk(&[d("c17_c"), d("c17_a")], 2)).is_ok()));
                    guard("Registry::unregister({a})", false, catch(|| reg.unregister(mk(&[d("c17_a")], 0)).is_ok()));
                    guard("Registry::register({a,c}) after {a} was unregistered", false, catch(|| reg.register(mk(&[d("c17_a"), d("c17_c")], 2)).is_ok()));
                    guard("Registry::register({c}) while {a,c} is registered", true, catch(|| reg.register(mk(&[d("c17_c")], 3)).is_ok()));
                    // a collector that lists one descriptor twice: whatever the answer is, it cannot depend
                    // on WHERE in the list the repeat sits
                    let answers: Vec<std::result::Result<bool, String>> = [["c17_p", "c17_p", "c17_q"], ["c17_p", "c17_q", "c17_p"], ["c17_q", "c17_p", "c17_p"]]
                        .iter()
                        .map(|names| {
                            let fresh = Registry::new();
                            catch(|| fresh.register(mk(&[d(names[0]), d(names[1]), d(names[2])], 4)).is_ok())
                        })
                        .collect();
                    let same = answers.windows(2).all(|w| w[0] == w[1]);
                    guard("Registry::register(collector with a repeated descriptor at different positions)", !same, answers[1].clone().map(|x| x || !same));
                }
            }
        }
    }
    drop(guard);
    out.fingerprint = crate::rng::mix2(calls, errs);
    out.violations = vio;
    out.probes.push(("fallible_calls", calls));
    out.probes.push(("calls_returning_err", errs));
    out
}

pub struct C17;
impl Scenario for C17 {
    fn id(&self) -> &'static str {
        "C17"
    }
    fn name(&self) -> &'static str {
        "fallible-apis"
    }
    fn runs(&self, tier: Tier) -> u64 {
        match tier {
            Tier::Quick => 300_000,
            Tier::Thorough => 8_000_000,
        }
    }
    fn gen(&self, seed: u64, _tier: Tier) -> Value {
        serde_json::to_value(gen_api_plan(seed)).unwrap()
    }
    fn run(&self, plan: &Value, _mode: Mode) -> RunOut {
        let plan: ApiPlan = serde_json::from_value(plan.clone()).expect("C17 plan");
        isolated(7, move || execute_c17(&plan))
    }
    fn shrink(&self, plan: &Value) -> Vec<Value> {
        let p: ApiPlan = serde_json::from_value(plan.clone()).unwrap();
        let mut c = vec![];
        for i in 0..p.calls.len() {
            if p.calls.len() > 1 {
                let mut n = p.clone();
                n.calls.remove(i);
                c.push(n);
            }
            if let Call::Encode { families, writer } = &p.calls[i] {
                for j in 0..families.len() {
                    if families.len() > 1 {
                        let mut f = families.clone();
                        f.remove(j);
                        let mut n = p.clone();
                        n.calls[i] = Call::Encode { families: f, writer: writer.clone() };
                        c.push(n);
                    }
                    if families[j].metrics.len() > 1 {
                        let mut f = families.clone();
                        f[j].metrics.truncate(1);
                        let mut n = p.clone();
                        n.calls[i] = Call::Encode { families: f, writer: writer.clone() };
                        c.push(n);
                    }
                }
            }
        }
        c.into_iter().map(|p| serde_json::to_value(p).unwrap()).collect()
    }
    fn info(&self) -> Info {
        Info {
            rule: "one case = 1-4 generated calls into the Result-returning API: both encoders on arbitrary families (every MetricType incl. UNTYPED, missing name / samples / payload, arbitrary strings) also into a writer failing at byte k; linear_buckets / exponential_buckets with zero, negative, NaN, infinite parameters and counts up to 65; histogram constructors with arbitrary f64 bucket lists; every metric constructor with adversarial names; vector requests and removals with arbitrary cardinalities and map keys; Registry::new_custom with arbitrary prefix/labels followed by conflicting register/unregister calls; everything under catch_unwind; a panic is a violation, and Err is demanded where the statement names the argument as invalid; every case is non-trivial; distinct = distinct call lists",
            assumptions: vec!["with_label_values / with (documented to panic) are not called", "no schedule dimension: the injected environment fault is the failing Write sink"],
            real: vec!["all Result-returning public functions listed in the statement"],
            stubbed: vec!["the io::Write sink (FaultyWriter)"],
            expected_probes: vec!["fallible_calls", "calls_returning_err"],
        }
    }
}
