//! C05: exactly one child per distinct label-value tuple, for every vector kind.
use crate::common::*;
use crate::compat;
use crate::driver::{Info, RunOut, Scenario, Tier, Violation};
use crate::engine::{Env, Mode, Outcome};
use crate::rng::Rng;
use crate::scen::value::shrink_env;
use prometheus::core::Collector;
use prometheus::*;
use serde::{Deserialize, Serialize};
use serde_json::Value;
use std::collections::{BTreeMap, HashMap};
use std::sync::{Arc, Mutex};

#[derive(Serialize, Deserialize, Clone, Debug, PartialEq)]
pub enum AKind {
    Counter,
    IntCounter,
    Gauge,
    IntGauge,
    Histogram,
    LocalCounter,
    LocalIntCounter,
    LocalHistogram,
}
#[derive(Serialize, Deserialize, Clone, Debug, PartialEq)]
pub enum Req {
    Values(Vec<String>),
    /// (name, value) pairs in insertion order
    Map(Vec<(String, String)>),
}
#[derive(Serialize, Deserialize, Clone, Debug)]
pub struct AliasPlan {
    pub env: Env,
    pub kind: AKind,
    pub labels: Vec<String>,
    pub consts: Vec<(String, String)>,
    /// request i applies weight 2^(i+8); requests are dealt round-robin to `nthreads` threads
    pub requests: Vec<Req>,
    pub nthreads: usize,
    /// shared vectors, two threads: an unrelated child (label values "\u{1}churn") exists from the
    /// start and every thread removes and re-creates it after each of its requests, so the number of
    /// children goes up and down while equal tuples are requested concurrently
    #[serde(default)]
    pub churn: bool,
    /// local vectors: after the flush the first request's child is removed through the shared vector,
    /// then through the local vector (refused: already gone), then requested again through the local
    /// vector, updated with weight 2^50 and flushed: the shared vector must show a child that
    /// started from zero
    #[serde(default)]
    pub detach: bool,
    /// with `detach`: the request after the removal goes through a CLONE of the local vector taken
    /// before the removal (a clone starts without cached children)
    #[serde(default)]
    pub detach_clone: bool,
}

fn splits(s: &str, n: usize, r: &mut Rng) -> Vec<String> {
    // split s at n-1 random char boundaries (possibly equal => empty parts)
    let idx: Vec<usize> = s.char_indices().map(|(i, _)| i).chain(std::iter::once(s.len())).collect();
    let mut cuts: Vec<usize> = (0..n - 1).map(|_| *r.pick(&idx)).collect();
    cuts.sort();
    let mut out = vec![];
    let mut prev = 0;
    for c in cuts {
        out.push(s[prev..c].to_string());
        prev = c;
    }
    out.push(s[prev..].to_string());
    out
}

const BASES: &[&str] = &["abc", "aébc", "a,b", "ab\u{ff}c", "a\"b\\c", "xx", "a\nb", "123", "a\u{1f}b\u{1f}", "\u{0}a\u{0}", "ÿÿ", "a\u{fffd}\u{ff}b", " a "];

fn gen_plan(seed: u64) -> AliasPlan {
    let mut r = Rng::new(seed, 1);
    let kind = match r.below(16) {
        0..=2 => AKind::IntCounter,
        3..=4 => AKind::Counter,
        5..=6 => AKind::Gauge,
        7..=8 => AKind::IntGauge,
        9..=11 => AKind::Histogram,
        12 => AKind::LocalCounter,
        13 => AKind::LocalIntCounter,
        _ => AKind::LocalHistogram,
    };
    let is_local = matches!(kind, AKind::LocalCounter | AKind::LocalIntCounter | AKind::LocalHistogram);
    let nl = 1 + r.below(3) as usize;
    let all_names = ["l1", "m2", "a3"];
    let labels: Vec<String> = all_names[..nl].iter().map(|s| s.to_string()).collect();
    let consts: Vec<(String, String)> = match r.below(3) {
        0 => vec![],
        1 => vec![("zz".into(), "c1".into())],
        _ => vec![("b0".into(), "c\"1".into()), ("zz".into(), "".into())],
    };
    // now and then a crowd: enough children to grow the child map several times
    let nreq = if r.chance(6) { 12 + r.below(20) as usize } else { 2 + r.below(7) as usize };
    let base = *r.pick(BASES);
    let mut pool: Vec<Vec<String>> = vec![];
    for _ in 0..(2 + r.below(3) + if nreq > 10 { 10 } else { 0 }) {
        pool.push(splits(base, nl, &mut r));
    }
    if r.chance(40) {
        let b2 = *r.pick(BASES);
        pool.push(splits(b2, nl, &mut r));
    }
    if r.chance(10) {
        // twins that differ only by trailing NUL characters in one value (a key that is padded, or
        // that forgets the length, confuses them)
        let base_t = splits(base, nl, &mut r);
        let at = r.below(nl as u64) as usize;
        for pad in ["", "\u{0}", "\u{0}\u{0}"] {
            let mut t = base_t.clone();
            t[at] = format!("{}{}", t[at], pad);
            pool.push(t);
        }
    }
    if r.chance(12) {
        // long values of equal length that share a long head and differ only at the very end
        let len = *r.pick(&[31usize, 32, 33, 40, 64, 65, 100, 300]);
        let at = r.below(nl as u64) as usize;
        for k in 0..3 {
            let mut t: Vec<String> = (0..nl).map(|_| "x".to_string()).collect();
            t[at] = format!("{}{}", "h".repeat(len), k);
            pool.push(t);
        }
    }
    let mut requests = vec![];
    for _ in 0..nreq {
        let t = r.pick(&pool).clone();
        let invalid = !is_local && r.chance(12);
        if r.chance(40) {
            let mut pairs: Vec<(String, String)> = labels.iter().cloned().zip(t.iter().cloned()).collect();
            r.shuffle(&mut pairs);
            if invalid {
                match r.below(3) {
                    0 => {
                        pairs.pop();
                    }
                    1 => pairs.push(("extra".into(), "v".into())),
                    _ => pairs[0].0 = "wrong".into(),
                }
            }
            requests.push(Req::Map(pairs));
        } else {
            let mut v = t;
            if invalid {
                if r.chance(50) {
                    v.pop();
                } else {
                    v.push("extra".into());
                }
            }
            requests.push(Req::Values(v));
        }
    }
    let nthreads = if is_local || r.chance(50) { 1 } else { 2 };
    let churn = nthreads == 2 && r.chance(50);
    let faults = churn && r.chance(50);
    let env = Env::swarm(&mut r, nthreads, nreq as u64 * 12 + 10, faults);
    let detach = is_local && r.chance(35);
    let detach_clone = detach && r.chance(50);
    AliasPlan { env, kind, labels, consts, requests, nthreads, churn, detach, detach_clone }
}

/// The tuple a request denotes, or None if the request is invalid for the declared names.
fn tuple_of(labels: &[String], r: &Req) -> Option<Vec<String>> {
    match r {
        Req::Values(v) => {
            if v.len() == labels.len() {
                Some(v.clone())
            } else {
                None
            }
        }
        Req::Map(p) => {
            if p.len() != labels.len() {
                return None;
            }
            let mut out = vec![];
            for n in labels {
                out.push(p.iter().find(|(k, _)| k == n)?.1.clone());
            }
            Some(out)
        }
    }
}

#[derive(Clone)]
enum V {
    C(CounterVec),
    IC(IntCounterVec),
    G(GaugeVec),
    IG(IntGaugeVec),
    H(HistogramVec),
}
#[derive(Clone)]
enum Hd {
    C(Counter),
    IC(IntCounter),
    G(Gauge),
    IG(IntGauge),
    H(Histogram),
}
impl Hd {
    fn add(&self, w: u64) {
        match self {
            Hd::C(c) => c.inc_by(w as f64),
            Hd::IC(c) => c.inc_by(w),
            Hd::G(c) => c.add(w as f64),
            Hd::IG(c) => c.add(w as i64),
            Hd::H(c) => c.observe(w as f64),
        }
    }
    fn get(&self) -> f64 {
        match self {
            Hd::C(c) => c.get(),
            Hd::IC(c) => c.get() as f64,
            Hd::G(c) => c.get(),
            Hd::IG(c) => c.get() as f64,
            Hd::H(c) => c.get_sample_sum(),
        }
    }
}
macro_rules! req_get {
    ($v:expr, $req:expr, $wrap:path) => {
        match $req {
            Req::Values(vals) => {
                let vs: Vec<&str> = vals.iter().map(|s| s.as_str()).collect();
                let r = $v.get_metric_with_label_values(&vs).map($wrap).map_err(|e| e.to_string());
                if r.is_ok() && vals.len() % 2 == 0 {
                    Ok($wrap($v.with_label_values(&vs)))
                } else {
                    r
                }
            }
            Req::Map(pairs) => {
                let mut m: HashMap<&str, &str> = HashMap::new();
                for (k, v) in pairs {
                    m.insert(k.as_str(), v.as_str());
                }
                let r = $v.get_metric_with(&m).map($wrap).map_err(|e| e.to_string());
                if r.is_ok() && pairs.len() % 2 == 1 {
                    // the panicking accessor must hand out the same child
                    Ok($wrap($v.with(&m)))
                } else {
                    r
                }
            }
        }
    };
}
impl V {
    fn get(&self, req: &Req) -> std::result::Result<Hd, String> {
        match self {
            V::C(v) => req_get!(v, req, Hd::C),
            V::IC(v) => req_get!(v, req, Hd::IC),
            V::G(v) => req_get!(v, req, Hd::G),
            V::IG(v) => req_get!(v, req, Hd::IG),
            V::H(v) => req_get!(v, req, Hd::H),
        }
    }
    fn remove(&self, req: &Req) {
        if let Req::Values(vals) = req {
            let vs: Vec<&str> = vals.iter().map(|s| s.as_str()).collect();
            let _ = match self {
                V::C(v) => v.remove_label_values(&vs),
                V::IC(v) => v.remove_label_values(&vs),
                V::G(v) => v.remove_label_values(&vs),
                V::IG(v) => v.remove_label_values(&vs),
                V::H(v) => v.remove_label_values(&vs),
            };
        }
    }
    fn collect(&self) -> Vec<proto::MetricFamily> {
        match self {
            V::C(v) => v.collect(),
            V::IC(v) => v.collect(),
            V::G(v) => v.collect(),
            V::IG(v) => v.collect(),
            V::H(v) => v.collect(),
        }
    }
}

#[derive(Clone, Debug)]
enum ARes {
    Ok,
    Err(usize, usize), // children before / after the refused request
}

fn execute(plan: &AliasPlan, mode: Mode) -> RunOut {
    let sim = new_sim(&plan.env, mode);
    let names: Vec<&str> = plan.labels.iter().map(|s| s.as_str()).collect();
    let mut opts = Opts::new("c05_vec", "vector under test");
    for (k, v) in &plan.consts {
        opts = opts.const_label(k.clone(), v.clone());
    }
    let vec = match plan.kind {
        AKind::Counter | AKind::LocalCounter => V::C(CounterVec::new(opts, &names).unwrap()),
        AKind::IntCounter | AKind::LocalIntCounter => V::IC(IntCounterVec::new(opts, &names).unwrap()),
        AKind::Gauge => V::G(GaugeVec::new(opts, &names).unwrap()),
        AKind::IntGauge => V::IG(IntGaugeVec::new(opts, &names).unwrap()),
        AKind::Histogram | AKind::LocalHistogram => V::H(HistogramVec::new(HistogramOpts::from(opts).buckets(vec![1e300]), &names).unwrap()),
    };
    let is_local = matches!(plan.kind, AKind::LocalCounter | AKind::LocalIntCounter | AKind::LocalHistogram);
    // deal requests to threads
    let mut threads: Vec<Vec<(usize, Req)>> = vec![vec![]; plan.nthreads.max(1)];
    for (i, r) in plan.requests.iter().enumerate() {
        threads[i % plan.nthreads.max(1)].push((i, r.clone()));
    }
    let results: Results<ARes> = Arc::new(Mutex::new(vec![]));
    let handles: Arc<Mutex<BTreeMap<usize, Hd>>> = Arc::new(Mutex::new(BTreeMap::new()));
    let local_reads: Arc<Mutex<BTreeMap<usize, f64>>> = Arc::new(Mutex::new(BTreeMap::new()));
    let churn_req = Req::Values(plan.labels.iter().map(|_| "\u{1}churn".to_string()).collect());
    if plan.churn && !is_local {
        let _ = vec.get(&churn_req);
    }
    if !is_local {
        let vec = vec.clone();
        let handles = handles.clone();
        let churn = plan.churn;
        let churn_req2 = churn_req.clone();
        spawn_threads(&sim, &threads, &results, move |_ctx, _t, _i, (ri, req): &(usize, Req)| match vec.get(req) {
            Ok(h) => {
                h.add(1u64 << (ri + 8));
                handles.lock().unwrap().insert(*ri, h);
                if churn {
                    vec.remove(&churn_req2);
                    let _ = vec.get(&churn_req2);
                }
                ARes::Ok
            }
            Err(_) => {
                let before = compat::family_of(&vec.collect()[0]).metrics.len();
                // a refused request must create nothing: look again after a second refused attempt
                let _ = vec.get(req);
                let after = compat::family_of(&vec.collect()[0]).metrics.len();
                ARes::Err(before, after)
            }
        });
    } else {
        // one simulated thread owns the local vector; every request is valid here
        let vec = vec.clone();
        let reqs: Vec<(usize, Req)> = threads.concat();
        let local_reads = local_reads.clone();
        let labels = plan.labels.clone();
        let one = vec![vec![0u8]];
        let detach = plan.detach;
        let detach_clone = plan.detach_clone;
        let res2: Results<ARes> = results.clone();
        spawn_threads(&sim, &one, &res2, move |_ctx, _t, _i, _op: &u8| {
            macro_rules! drive {
                ($lv:expr, $add:expr, $get:expr) => {{
                    let mut lv = $lv;
                    for (ri, req) in &reqs {
                        let t = tuple_of(&labels, req).expect("valid request");
                        let vs: Vec<&str> = t.iter().map(|s| s.as_str()).collect();
                        let l = lv.with_label_values(&vs);
                        $add(l, 1u64 << (ri + 8));
                    }
                    // before any flush the shared children read zero; local handles read their pending sum
                    for (ri, req) in &reqs {
                        let t = tuple_of(&labels, req).expect("valid request");
                        let vs: Vec<&str> = t.iter().map(|s| s.as_str()).collect();
                        let l = lv.with_label_values(&vs);
                        local_reads.lock().unwrap().insert(*ri, $get(l));
                    }
                    lv.flush();
                    if detach {
                        if let Some((_, req)) = reqs.first() {
                            let t = tuple_of(&labels, req).expect("valid request");
                            let vs: Vec<&str> = t.iter().map(|s| s.as_str()).collect();
                            if detach_clone {
                                let mut lv2 = lv.clone();
                                vec.remove(&Req::Values(t.clone()));
                                let l = lv2.with_label_values(&vs);
                                $add(l, 1u64 << 50);
                                lv2.flush();
                            } else {
                                vec.remove(&Req::Values(t.clone()));
                                let _ = lv.remove_label_values(&vs);
                                let l = lv.with_label_values(&vs);
                                $add(l, 1u64 << 50);
                                lv.flush();
                            }
                        }
                    }
                }};
            }
            match &vec {
                V::C(v) => drive!(v.local(), |l: &mut prometheus::local::LocalCounter, w: u64| l.inc_by(w as f64), |l: &mut prometheus::local::LocalCounter| l.get()),
                V::IC(v) => drive!(v.local(), |l: &mut prometheus::local::LocalIntCounter, w: u64| l.inc_by(w), |l: &mut prometheus::local::LocalIntCounter| l.get() as f64),
                V::H(v) => drive!(v.local(), |l: &prometheus::local::LocalHistogram, w: u64| l.observe(w as f64), |l: &prometheus::local::LocalHistogram| l.get_sample_sum()),
                _ => unreachable!(),
            }
            ARes::Ok
        });
    }
    let res = sim.run();
    let mut out = base_out(&plan.env, &res);
    out.nontrivial = true;
    for (t, p) in &res.panics {
        out.violations.push(Violation::new("C05/panic", "C05/panic", format!("thread {} panicked: {}", t, p)));
    }
    if res.outcome == Outcome::Stuck {
        out.violations.push(Violation::new("C05/stuck", "C05/stuck", "no thread can make progress".to_string()));
        return out;
    }
    if !is_finished(&res) {
        return out;
    }
    let results = results.lock().unwrap();
    for (_, r) in results.iter() {
        if let Err(p) = r {
            out.violations.push(Violation::new("C05/panic", "C05/panic", format!("request panicked: {}", p)));
        }
    }
    let tuples: Vec<Option<Vec<String>>> = plan.requests.iter().map(|r| tuple_of(&plan.labels, r)).collect();
    // expected value per distinct tuple
    let mut want: BTreeMap<Vec<String>, u64> = BTreeMap::new();
    for (i, t) in tuples.iter().enumerate() {
        if let Some(t) = t {
            *want.entry(t.clone()).or_default() |= 1u64 << (i + 8);
        }
    }
    // (the local reads were taken before the detach step and are judged against the first pass)
    let want_first_pass = want.clone();
    if plan.detach && is_local {
        if let Some(Some(t0)) = tuples.first() {
            want.insert(t0.clone(), 1u64 << 50);
        }
    }
    let alias_key = |a: &Vec<String>, b: &Vec<String>| if a.concat() == b.concat() { "C05/alias:same-concatenation" } else { "C05/alias" };
    if !is_local {
        let handles = handles.lock().unwrap();
        for (i, t) in tuples.iter().enumerate() {
            match (t, handles.get(&i)) {
                (Some(t), Some(h)) => {
                    let got = h.get();
                    let w = want[t] as f64;
                    if got != w {
                        // find whom it aliases with
                        let gu = f2u(got).unwrap_or(0);
                        let mut key = "C05/alias";
                        let mut with = String::new();
                        for (j, t2) in tuples.iter().enumerate() {
                            if let Some(t2) = t2 {
                                if t2 != t && gu & (1u64 << (j + 8)) != 0 {
                                    key = alias_key(t, t2);
                                    with = format!("{:?}", t2);
                                }
                            }
                        }
                        out.violations.push(Violation::new("C05/alias", key, format!("handle for {:?} reads {} but the updates made for exactly these label values sum to {}{}", t, got, w, if with.is_empty() { String::new() } else { format!("; it shares its child with {}", with) })));
                    }
                }
                (Some(t), None) => out.violations.push(Violation::new("C05/error", "C05/error", format!("valid request {:?} for {:?} was refused", plan.requests[i], t))),
                (None, Some(_)) => out.violations.push(Violation::new("C05/error", "C05/accepted-invalid", format!("request {:?} does not match the declared label names {:?} but returned a child", plan.requests[i], plan.labels))),
                (None, None) => {}
            }
        }
        for (id, r) in results.iter() {
            if let Ok(ARes::Err(b, a)) = r {
                let ri = threads[op_thread(*id)][*id as usize % 1000].0;
                if tuples[ri].is_none() && plan.nthreads <= 1 && !plan.churn && a != b {
                    out.violations.push(Violation::new("C05/error", "C05/error-created", format!("refused request {:?} changed the number of children from {} to {}", plan.requests[ri], b, a)));
                }
            }
        }
    } else {
        let lr = local_reads.lock().unwrap();
        for (i, t) in tuples.iter().enumerate() {
            if let (Some(t), Some(got)) = (t, lr.get(&i)) {
                let w = want_first_pass[t] as f64;
                if *got != w {
                    let gu = f2u(*got).unwrap_or(0);
                    let mut key = "C05/alias";
                    for (j, t2) in tuples.iter().enumerate() {
                        if let Some(t2) = t2 {
                            if t2 != t && gu & (1u64 << (j + 8)) != 0 {
                                key = alias_key(t, t2);
                            }
                        }
                    }
                    out.violations.push(Violation::new("C05/alias", key, format!("local handle for {:?} holds {} but the updates made for exactly these label values sum to {}", t, got, w)));
                }
            }
        }
    }
    // exposure: one sample per distinct tuple, exact label pairs sorted by name, exact value
    let fam = compat::family_of(&vec.collect()[0]);
    let mut seen: BTreeMap<Vec<String>, usize> = BTreeMap::new();
    let churn_tuple: Vec<String> = plan.labels.iter().map(|_| "\u{1}churn".to_string()).collect();
    for m in &fam.metrics {
        if plan.churn && plan.labels.iter().all(|n| m.labels.iter().any(|(k, v)| k == n && v == "\u{1}churn")) {
            let _ = &churn_tuple;
            continue; // the unrelated child that is removed and re-created all the time
        }
        let mut expect_names: Vec<&str> = plan.labels.iter().map(|s| s.as_str()).chain(plan.consts.iter().map(|(k, _)| k.as_str())).collect();
        expect_names.sort();
        let got_names: Vec<&str> = m.labels.iter().map(|(k, _)| k.as_str()).collect();
        if got_names != expect_names {
            out.violations.push(Violation::new("C05/exposure", "C05/exposure", format!("sample carries label names {:?}, expected {:?} (declared + constant, sorted by name)", got_names, expect_names)));
            continue;
        }
        for (k, v) in &plan.consts {
            if m.labels.iter().find(|(n, _)| n == k).map(|(_, x)| x) != Some(v) {
                out.violations.push(Violation::new("C05/exposure", "C05/exposure", format!("constant label {}={:?} not exposed on sample {:?}", k, v, m.labels)));
            }
        }
        let t: Vec<String> = plan.labels.iter().map(|n| m.labels.iter().find(|(k, _)| k == n).unwrap().1.clone()).collect();
        *seen.entry(t.clone()).or_default() += 1;
        let val = m.counter.or(m.gauge).or(m.hist.as_ref().map(|h| h.sum)).unwrap_or(f64::NAN);
        match want.get(&t) {
            Some(w) => {
                if val != *w as f64 {
                    let gu = f2u(val).unwrap_or(0);
                    let mut key = "C05/alias";
                    for (j, t2) in tuples.iter().enumerate() {
                        if let Some(t2) = t2 {
                            if *t2 != t && gu & (1u64 << (j + 8)) != 0 {
                                key = alias_key(&t, t2);
                            }
                        }
                    }
                    out.violations.push(Violation::new("C05/alias", key, format!("collected child {:?} has value {} but the updates for these label values sum to {}", t, val, w)));
                }
            }
            None => out.violations.push(Violation::new("C05/exposure", "C05/exposure", format!("collected child with label values {:?} was never requested", t))),
        }
    }
    for (t, n) in &seen {
        if *n != 1 {
            out.violations.push(Violation::new("C05/exposure", "C05/duplicate", format!("label values {:?} appear {} times in one collection", t, n)));
        }
    }
    for (t, _) in &want {
        if !seen.contains_key(t) {
            // which requested tuple swallowed it?
            let mut key = "C05/alias";
            for t2 in want.keys() {
                if t2 != t && t2.concat() == t.concat() {
                    key = "C05/alias:same-concatenation";
                }
            }
            out.violations.push(Violation::new("C05/alias", key, format!("label values {:?} were requested but no child with these values is collected (children: {:?})", t, seen.keys().collect::<Vec<_>>())));
        }
    }
    // distinct = distinct workload shapes (kind, labels, constants, requests, threads), not seeds
    let mut fp = crate::rng::Fp::default();
    fp.str(&serde_json::to_string(&(&plan.kind, &plan.labels, &plan.consts, &plan.requests, plan.nthreads, plan.churn, plan.detach, plan.detach_clone)).unwrap());
    out.signature = fp.0;
    out.probes.push(("invalid_requests", tuples.iter().filter(|t| t.is_none()).count() as u64));
    out.probes.push(("same_concatenation_pairs", {
        let ks: Vec<&Vec<String>> = want.keys().collect();
        let mut n = 0;
        for a in &ks {
            for b in &ks {
                if a < b && a.concat() == b.concat() {
                    n += 1;
                }
            }
        }
        n
    }));
    out.probes.push(("local_vector_runs", is_local as u64));
    out
}

pub struct C05;
impl Scenario for C05 {
    fn id(&self) -> &'static str {
        "C05"
    }
    fn name(&self) -> &'static str {
        "vector-children"
    }
    fn runs(&self, tier: Tier) -> u64 {
        match tier {
            Tier::Quick => 150_000,
            Tier::Thorough => 3_000_000,
        }
    }
    fn gen(&self, seed: u64, _tier: Tier) -> Value {
        serde_json::to_value(gen_plan(seed)).unwrap()
    }
    fn run(&self, plan: &Value, mode: Mode) -> RunOut {
        let plan: AliasPlan = serde_json::from_value(plan.clone()).expect("C05 plan");
        let hs = plan.env.hash_seed;
        isolated(hs, move || execute(&plan, mode))
    }
    fn shrink(&self, plan: &Value) -> Vec<Value> {
        let p: AliasPlan = serde_json::from_value(plan.clone()).unwrap();
        let mut c = vec![];
        for i in 0..p.requests.len() {
            if p.requests.len() > 1 {
                let mut n = p.requests.clone();
                n.remove(i);
                c.push(AliasPlan { requests: n, ..p.clone() });
            }
        }
        if p.churn {
            c.push(AliasPlan { churn: false, ..p.clone() });
        }
        if p.nthreads > 1 {
            c.push(AliasPlan { nthreads: 1, churn: false, ..p.clone() });
        }
        if !p.consts.is_empty() {
            c.push(AliasPlan { consts: vec![], ..p.clone() });
        }
        for i in 0..p.requests.len() {
            if let Req::Map(pairs) = &p.requests[i] {
                if let Some(t) = tuple_of(&p.labels, &p.requests[i]) {
                    let _ = pairs;
                    let mut n = p.requests.clone();
                    n[i] = Req::Values(t);
                    c.push(AliasPlan { requests: n, ..p.clone() });
                }
            }
        }
        for e in shrink_env(&p.env) {
            c.push(AliasPlan { env: e, ..p.clone() });
        }
        c.into_iter().map(|p| serde_json::to_value(p).unwrap()).collect()
    }
    fn info(&self) -> Info {
        Info {
            rule: "one run = one vector (counter/int counter/gauge/int gauge/histogram or a local counter/int counter/histogram vector; 1-3 labels; 0-2 constant labels) and 2-8 requests whose tuples are adversarial splits of one string (so tuples differing only in where a value ends are frequent), values form or map form in shuffled key order under a seed-controlled hash seed, 12% deliberately invalid; request i adds weight 2^(i+8) so every handle's value names exactly the requests that share its child; executed on 1-2 simulated threads; every run is counted non-trivial (it has >=2 requests); distinct = distinct workloads (kind, label names, constants, request list, thread count), seeds and schedules not counted",
            assumptions: vec!["group C property: the schedule dimension is exercised but the oracle is a sequential reference model (DESIGN 6/C05)"],
            real: vec!["prometheus::{CounterVec,IntCounterVec,GaugeVec,IntGaugeVec,HistogramVec} and local vectors (all code)"],
            stubbed: vec!["thread scheduling", "OS randomness for hash seeds"],
            expected_probes: vec!["invalid_requests", "same_concatenation_pairs", "local_vector_runs"],
        }
    }
}
