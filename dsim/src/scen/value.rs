//! C01 (counters) and C11 (gauges): real library atomics under the scheduler.
use crate::common::*;
use crate::compat;
use crate::driver::{Info, RunOut, Scenario, Tier, Violation};
use crate::engine::{Env, Mode};
use crate::lin::{linearize, HOp, Spec};
use crate::rng::Rng;
use prometheus::core::Collector;
use prometheus::*;
use serde::{Deserialize, Serialize};
use serde_json::Value;
use std::sync::{Arc, Mutex};

#[derive(Serialize, Deserialize, Clone, Debug, PartialEq)]
pub enum Flavour {
    Float,
    Int,
}
#[derive(Serialize, Deserialize, Clone, Debug, PartialEq)]
pub enum Origin {
    Standalone,
    VecChild,
    Registry,
}

// =============================================================================== C01
#[derive(Serialize, Deserialize, Clone, Debug, PartialEq)]
pub enum COp {
    /// inc_by(2^k)
    IncBy(u8),
    Inc,
    Get,
    Collect,
    /// local(): inc_by(2^b) for each b, `units` × inc(), then flush() (or drop unflushed); with
    /// `clone_mid` the local counter is cloned after its first increment, the remaining increments
    /// go to the clone, and both are flushed: every increment must still arrive exactly once
    LocalBatch {
        bits: Vec<u8>,
        units: u8,
        flush: bool,
        #[serde(default)]
        clone_mid: bool,
        /// vector-child origin only: the batch goes through vec.local() (a local VECTOR), which has
        /// used a sibling's label values first
        #[serde(default)]
        via_local_vec: bool,
    },
    Reset,
}
#[derive(Serialize, Deserialize, Clone, Debug)]
pub struct CounterPlan {
    pub env: Env,
    pub flavour: Flavour,
    pub origin: Origin,
    pub threads: Vec<Vec<COp>>,
    /// float counters only: every increment is multiplied by 2^scale (exact), so that tiny, subnormal
    /// and huge amounts are exercised; plans with a scale use no unit increments
    #[serde(default)]
    pub scale: i32,
}
/// x * 2^e, exact for the magnitudes used here (done in steps because 2^e itself may not be representable)
fn scale_by(mut x: f64, mut e: i32) -> f64 {
    while e != 0 {
        let step = e.clamp(-1000, 1000);
        x *= 2f64.powi(step);
        e -= step;
    }
    x
}

#[derive(Clone)]
enum Ctr {
    F(Counter),
    I(IntCounter),
}
impl Ctr {
    fn inc_by(&self, v: u64, scale: i32) {
        match self {
            Ctr::F(c) => c.inc_by(scale_by(v as f64, scale)),
            Ctr::I(c) => c.inc_by(v),
        }
    }
    fn inc(&self) {
        match self {
            Ctr::F(c) => c.inc(),
            Ctr::I(c) => c.inc(),
        }
    }
    fn get(&self) -> f64 {
        match self {
            Ctr::F(c) => c.get(),
            Ctr::I(c) => c.get() as f64,
        }
    }
    fn reset(&self) {
        match self {
            Ctr::F(c) => c.reset(),
            Ctr::I(c) => c.reset(),
        }
    }
    fn collect(&self) -> Vec<proto::MetricFamily> {
        match self {
            Ctr::F(c) => c.collect(),
            Ctr::I(c) => c.collect(),
        }
    }
    fn batch(&self, bits: &[u8], units: u8, flush: bool, clone_mid: bool, scale: i32) {
        macro_rules! go {
            ($c:expr, $conv:expr) => {{
                let l = $c.local();
                let mut second = None;
                for (i, b) in bits.iter().enumerate() {
                    if clone_mid && i == 1 {
                        second = Some(l.clone());
                    }
                    match &second {
                        Some(l2) => l2.inc_by($conv(1u64 << b)),
                        None => l.inc_by($conv(1u64 << b)),
                    }
                }
                if clone_mid && second.is_none() {
                    second = Some(l.clone());
                }
                for _ in 0..units {
                    match &second {
                        Some(l2) => l2.inc(),
                        None => l.inc(),
                    }
                }
                if flush {
                    l.flush();
                    if let Some(l2) = &second {
                        l2.flush();
                    }
                    l.flush();
                }
            }};
        }
        match self {
            Ctr::F(c) => go!(c, |x: u64| scale_by(x as f64, scale)),
            Ctr::I(c) => go!(c, |x: u64| x),
        }
    }
}
#[derive(Clone)]
enum CVec {
    F(CounterVec),
    I(IntCounterVec),
}
/// label values of the vector child under test, and of a sibling whose values concatenate to the same string
const ME: [&str; 2] = ["a", "bc"];
const SIBLING: [&str; 2] = ["ab", "c"];
impl CVec {
    /// the batch of `Ctr::batch`, but through a local VECTOR that has used the sibling's label values first
    fn batch_via_local_vec(&self, bits: &[u8], units: u8, flush: bool, scale: i32) {
        macro_rules! go {
            ($v:expr, $conv:expr, $zero:expr) => {{
                let mut lv = $v.local();
                lv.with_label_values(&SIBLING).inc_by($zero);
                for b in bits {
                    lv.with_label_values(&ME).inc_by($conv(1u64 << b));
                }
                for _ in 0..units {
                    lv.with_label_values(&ME).inc();
                }
                if flush {
                    lv.flush();
                    lv.flush();
                }
            }};
        }
        match self {
            CVec::F(v) => go!(v, |x: u64| scale_by(x as f64, scale), 0.0),
            CVec::I(v) => go!(v, |x: u64| x, 0),
        }
    }
    fn child(&self) -> Ctr {
        match self {
            CVec::F(v) => Ctr::F(v.with_label_values(&ME)),
            CVec::I(v) => Ctr::I(v.with_label_values(&ME)),
        }
    }
    fn collect(&self) -> Vec<proto::MetricFamily> {
        match self {
            CVec::F(v) => v.collect(),
            CVec::I(v) => v.collect(),
        }
    }
}

pub struct C01;

impl C01 {
    fn gen_plan(seed: u64, tier: Tier) -> CounterPlan {
        let mut r = Rng::new(seed, 1);
        let deep = tier == Tier::Thorough && r.chance(50);
        let nthreads = if r.chance(8) { 1 } else { 2 + r.below(3) as usize };
        let reset_run = r.chance(6);
        let mut next_bit = 8u8;
        let mut threads = vec![];
        let mut reset_placed = false;
        let mut nops = 0u64;
        for _ in 0..nthreads {
            let n = 1 + r.below(if deep { 8 } else { 5 }) as usize;
            let mut ops = vec![];
            for _ in 0..n {
                // weights stay below 2^52 so that float sums are exact
                let roll = if next_bit > 48 { 60 } else { r.below(100) };
                let op = match roll {
                    0..=34 => {
                        next_bit += 1;
                        COp::IncBy(next_bit - 1)
                    }
                    35..=49 => COp::Inc,
                    50..=69 => COp::Get,
                    70..=79 => COp::Collect,
                    80..=94 => {
                        let nb = 1 + r.below(3) as u8;
                        let bits = (0..nb).map(|i| next_bit + i).collect();
                        next_bit += nb;
                        COp::LocalBatch { bits, units: r.below(3) as u8, flush: !r.chance(12), clone_mid: r.chance(30), via_local_vec: r.chance(35) }
                    }
                    _ => {
                        if reset_run && !reset_placed {
                            reset_placed = true;
                            COp::Reset
                        } else {
                            COp::Get
                        }
                    }
                };
                ops.push(op);
                nops += 1;
            }
            threads.push(ops);
        }
        let faults = r.chance(60);
        let env = Env::swarm(&mut r, nthreads, nops * 6 + 10, faults);
        let flavour = if r.chance(60) { Flavour::Float } else { Flavour::Int };
        let origin = match r.below(10) {
            0..=4 => Origin::Standalone,
            5..=7 => Origin::VecChild,
            _ => Origin::Registry,
        };
        let mut scale = 0;
        if flavour == Flavour::Float && r.chance(20) {
            // smallest weight is 2^8: -1082 makes it the smallest subnormal
            scale = *r.pick(&[-60, -100, -1082, -1030, 900]);
            for ops in threads.iter_mut() {
                for op in ops.iter_mut() {
                    match op {
                        COp::Inc => *op = COp::Get,
                        COp::LocalBatch { units, .. } => *units = 0,
                        _ => {}
                    }
                }
            }
        }
        CounterPlan { env, flavour, origin, threads, scale }
    }

    fn execute(plan: &CounterPlan, mode: Mode) -> RunOut {
        let sim = new_sim(&plan.env, mode);
        let results: Results<Option<f64>> = Arc::new(Mutex::new(vec![]));
        let opts = Opts::new("c01_total", "counter under test").const_label("k", "v");
        // a standalone counter is a single handle shared by reference (never cloned by the harness):
        // code paths that depend on the handle count are exercised as well
        let (ctr, vec, reg): (Option<Arc<Ctr>>, Option<CVec>, Option<Registry>) = match (&plan.origin, &plan.flavour) {
            (Origin::VecChild, Flavour::Float) => (None, Some(CVec::F(CounterVec::new(opts, &["l", "m"]).unwrap())), None),
            (Origin::VecChild, Flavour::Int) => (None, Some(CVec::I(IntCounterVec::new(opts, &["l", "m"]).unwrap())), None),
            (o, Flavour::Float) => {
                let c = Counter::with_opts(opts).unwrap();
                let reg = if *o == Origin::Registry {
                    let r = Registry::new();
                    r.register(Box::new(c.clone())).unwrap();
                    Some(r)
                } else {
                    None
                };
                (Some(Arc::new(Ctr::F(c))), None, reg)
            }
            (o, Flavour::Int) => {
                let c = IntCounter::with_opts(opts).unwrap();
                let reg = if *o == Origin::Registry {
                    let r = Registry::new();
                    r.register(Box::new(c.clone())).unwrap();
                    Some(r)
                } else {
                    None
                };
                (Some(Arc::new(Ctr::I(c))), None, reg)
            }
        };
        // keep every handle alive until the run is judged (no address reuse inside a run)
        let keep: Arc<Mutex<Vec<Ctr>>> = Arc::new(Mutex::new(vec![]));
        {
            let ctr = ctr.clone();
            let vec = vec.clone();
            let reg = reg.clone();
            let keep = keep.clone();
            let scale = plan.scale;
            spawn_threads(&sim, &plan.threads, &results, move |_ctx, _t, _i, op: &COp| {
                let child;
                let c: &Ctr = match (&ctr, &vec) {
                    (Some(c), _) => &**c,
                    (None, Some(v)) => {
                        child = v.child();
                        keep.lock().unwrap().push(child.clone());
                        &child
                    }
                    _ => unreachable!(),
                };
                match op {
                    COp::IncBy(k) => {
                        c.inc_by(1u64 << k, scale);
                        None
                    }
                    COp::Inc => {
                        c.inc();
                        None
                    }
                    COp::Get => Some(c.get()),
                    COp::Collect => {
                        let mfs = match (&reg, &vec) {
                            (Some(r), _) => r.gather(),
                            (None, Some(v)) => v.collect(),
                            _ => c.collect(),
                        };
                        // (a vector may also hold the sibling child: pick the sample of the child under test)
                        let fam = mfs.first().map(compat::family_of);
                        let mine = fam.as_ref().and_then(|f| if f.metrics.len() <= 1 { f.metrics.first() } else { f.metrics.iter().find(|m| m.labels.iter().any(|(k, v)| k == "l" && v == ME[0]) && m.labels.iter().any(|(k, v)| k == "m" && v == ME[1])) });
                        Some(mine.and_then(|m| m.counter.or(m.gauge)).unwrap_or(f64::NAN))
                    }
                    COp::LocalBatch { bits, units, flush, clone_mid, via_local_vec } => {
                        match (&vec, *via_local_vec && !*clone_mid) {
                            (Some(v), true) => v.batch_via_local_vec(bits, *units, *flush, scale),
                            _ => c.batch(bits, *units, *flush, *clone_mid, scale),
                        }
                        None
                    }
                    COp::Reset => {
                        c.reset();
                        None
                    }
                }
            });
        }
        let res = sim.run();
        let mut out = base_out(&plan.env, &res);
        for (t, p) in &res.panics {
            out.violations.push(Violation::new("C01/panic", "C01/panic", format!("thread {} panicked: {}", t, p)));
        }
        if !is_finished(&res) {
            if res.outcome == crate::engine::Outcome::Stuck {
                out.violations.push(Violation::new("C01/stuck", "C01/stuck", "no thread can make progress".to_string()));
            }
            return out;
        }
        let final_v = match (&ctr, &vec) {
            (Some(c), _) => c.get(),
            (None, Some(v)) => v.child().get(),
            _ => unreachable!(),
        };
        let iv = intervals(&res.log);
        let mut results = results.lock().unwrap().clone();
        // reads are judged in units of 2^scale
        let unscale = |v: f64| if plan.flavour == Flavour::Float { scale_by(v, -plan.scale) } else { v };
        for (_, r) in results.iter_mut() {
            if let Ok(Some(v)) = r {
                *v = unscale(*v);
            }
        }
        let final_v = unscale(final_v);
        judge_counter(plan, &iv, &results, final_v, &mut out);
        out
    }
}

struct IncOp {
    inv: usize,
    ret: usize,
    bits: u64,
    units: u64,
}

fn judge_counter(plan: &CounterPlan, iv: &std::collections::BTreeMap<u32, (usize, usize)>, results: &[(u32, std::result::Result<Option<f64>, String>)], final_v: f64, out: &mut RunOut) {
    let mut incs: Vec<IncOp> = vec![];
    let mut plain_units: Vec<(usize, usize)> = vec![];
    let mut resets: Vec<(usize, usize)> = vec![];
    let mut reads: Vec<(usize, usize, f64, u32)> = vec![];
    for (id, r) in results {
        let t = op_thread(*id);
        let i = *id as usize % 1000;
        let (inv, ret) = iv[id];
        let op = &plan.threads[t][i];
        let r = match r {
            Ok(r) => r,
            Err(p) => {
                out.violations.push(Violation::new("C01/panic", "C01/panic", format!("op {:?} panicked: {}", op, p)));
                continue;
            }
        };
        match op {
            COp::IncBy(k) => incs.push(IncOp { inv, ret, bits: 1u64 << k, units: 0 }),
            COp::Inc => plain_units.push((inv, ret)),
            COp::LocalBatch { bits, units, flush, clone_mid, .. } => {
                if *flush && !*clone_mid {
                    incs.push(IncOp { inv, ret, bits: bits.iter().fold(0, |a, b| a | 1u64 << b), units: *units as u64 })
                } else if *flush {
                    // two local counters, two flushes: the first increment, then everything else
                    incs.push(IncOp { inv, ret, bits: 1u64 << bits[0], units: 0 });
                    let rest = bits[1..].iter().fold(0, |a, b| a | 1u64 << b);
                    if rest != 0 {
                        incs.push(IncOp { inv, ret, bits: rest, units: *units as u64 });
                    } else {
                        for _ in 0..*units {
                            plain_units.push((inv, ret));
                        }
                    }
                }
            }
            COp::Reset => resets.push((inv, ret)),
            COp::Get | COp::Collect => reads.push((inv, ret, r.unwrap_or(f64::NAN), *id)),
        }
    }
    let has_reset = !resets.is_empty();
    let all_bits: u64 = incs.iter().fold(0, |a, o| a | o.bits);
    let decode = |v: f64| -> Option<(u64, u64)> { f2u(v).map(|u| (u & !0xFF, u & 0xFF)) };
    for &(inv, ret, v, id) in &reads {
        let (hi, low) = match decode(v) {
            Some(x) => x,
            None => {
                out.violations.push(Violation::new("C01/subset", "C01/subset", format!("read op {} returned {} which is no sum of issued increments", id, v)));
                continue;
            }
        };
        if hi & !all_bits != 0 {
            out.violations.push(Violation::new("C01/subset", "C01/subset", format!("read op {} returned {} containing weight {:#x} that no increment carries (an increment applied twice?)", id, v, hi & !all_bits)));
            continue;
        }
        let mut units_of_included = 0u64;
        for o in &incs {
            let inc = hi & o.bits;
            if inc != 0 && inc != o.bits {
                out.violations.push(Violation::new("C01/batch", "C01/batch", format!("read op {} saw a flushed batch partially (bits {:#x} of {:#x})", id, inc, o.bits)));
            }
            if inc != 0 {
                units_of_included += o.units;
                if o.inv > ret {
                    out.violations.push(Violation::new("C01/subset", "C01/subset", format!("read op {} contains increment {:#x} that started after the read returned", id, o.bits)));
                }
            } else if o.ret < inv && !has_reset {
                out.violations.push(Violation::new("C01/subset", "C01/subset", format!("read op {} = {} misses increment {:#x} that completed before the read began", id, v, o.bits)));
            }
        }
        let min_units = units_of_included + plain_units.iter().filter(|u| u.1 < inv).count() as u64;
        let max_units = units_of_included + plain_units.iter().filter(|u| u.0 < ret).count() as u64;
        if low > max_units || (low < min_units && !has_reset) {
            out.violations.push(Violation::new("C01/subset", "C01/subset", format!("read op {} counts {} unit increments, admissible range {}..={}", id, low, min_units, max_units)));
        }
    }
    // monotonicity between reads ordered in real time with no reset in between / overlapping
    for a in &reads {
        for b in &reads {
            if a.1 < b.0 && !resets.iter().any(|r| r.0 < b.1 && r.1 > a.0) && b.2 < a.2 {
                out.violations.push(Violation::new("C01/monotone", "C01/monotone", format!("read op {} = {} precedes read op {} = {}: the counter went backwards", a.3, a.2, b.3, b.2)));
            }
        }
    }
    // quiescent value
    let total_units = plain_units.len() as u64 + incs.iter().map(|o| o.units).sum::<u64>();
    if !has_reset {
        let want = (all_bits + total_units) as f64;
        if final_v != want {
            out.violations.push(Violation::new("C01/final", "C01/final", format!("after all threads finished the counter reads {} but the increments sum to {}", final_v, want)));
        }
    } else {
        let (rinv, rret) = resets[0];
        let overlapping = incs.iter().any(|o| o.inv < rret && o.ret > rinv) || plain_units.iter().any(|u| u.0 < rret && u.1 > rinv);
        if !overlapping {
            let want: u64 = incs.iter().filter(|o| o.inv > rret).map(|o| o.bits + o.units).sum::<u64>() + plain_units.iter().filter(|u| u.0 > rret).count() as u64;
            if final_v != want as f64 {
                out.violations.push(Violation::new("C01/final", "C01/final-after-reset", format!("reset overlapped no increment; final value {} but increments issued after the reset sum to {}", final_v, want)));
            }
        }
    }
}

impl Scenario for C01 {
    fn id(&self) -> &'static str {
        "C01"
    }
    fn name(&self) -> &'static str {
        "counter"
    }
    fn runs(&self, tier: Tier) -> u64 {
        match tier {
            Tier::Quick => 200_000,
            Tier::Thorough => 4_000_000,
        }
    }
    fn gen(&self, seed: u64, tier: Tier) -> Value {
        serde_json::to_value(Self::gen_plan(seed, tier)).unwrap()
    }
    fn run(&self, plan: &Value, mode: Mode) -> RunOut {
        let plan: CounterPlan = serde_json::from_value(plan.clone()).expect("C01 plan");
        let hs = plan.env.hash_seed;
        isolated(hs, move || Self::execute(&plan, mode))
    }
    fn shrink(&self, plan: &Value) -> Vec<Value> {
        let p: CounterPlan = serde_json::from_value(plan.clone()).unwrap();
        let mut c = shrink_threads(&p.threads).into_iter().map(|t| CounterPlan { threads: t, ..p.clone() }).collect::<Vec<_>>();
        for e in shrink_env(&p.env) {
            c.push(CounterPlan { env: e, ..p.clone() });
        }
        if p.origin != Origin::Standalone {
            c.push(CounterPlan { origin: Origin::Standalone, ..p.clone() });
        }
        c.into_iter().map(|p| serde_json::to_value(p).unwrap()).collect()
    }
    fn info(&self) -> Info {
        Info {
            rule: "one run = one generated plan (1-4 threads x 1-5 ops over one shared Counter/IntCounter, standalone / vector child / through Registry::gather) executed under one seeded schedule; non-trivial = at least two API calls of different threads overlapped; distinct = distinct conflict signatures (per atomic cell: order of updates and which update each read followed; per lock: acquisition order)",
            assumptions: vec!["sequentially consistent interleavings at shim-visible operations (get() uses Relaxed loads; weak-memory reorderings of a single cell cannot change the read-value oracle because every access to the cell is atomic RMW or load of the same location)", "compare_exchange_weak may fail spuriously (injected)"],
            real: vec!["prometheus::{Counter,IntCounter,CounterVec,IntCounterVec,LocalCounter,Registry} (all code)", "std atomics and parking_lot locks underneath the shim"],
            stubbed: vec!["thread scheduling (baton)", "lock arbitration", "spurious CAS failure", "OS randomness for hash seeds"],
            expected_probes: vec!["cas_real_conflict", "api_calls_overlapping"],
        }
    }
}

pub fn shrink_threads<T: Clone>(threads: &[Vec<T>]) -> Vec<Vec<Vec<T>>> {
    let mut out = vec![];
    if threads.len() > 1 {
        for t in 0..threads.len() {
            let mut n = threads.to_vec();
            n.remove(t);
            out.push(n);
        }
    }
    for t in 0..threads.len() {
        for i in 0..threads[t].len() {
            let mut n = threads.to_vec();
            n[t].remove(i);
            if n[t].is_empty() && n.len() > 1 {
                continue; // covered by thread removal
            }
            out.push(n);
        }
    }
    out
}
pub fn shrink_env(e: &Env) -> Vec<Env> {
    let mut out = vec![];
    if e.stall.is_some() {
        out.push(Env { stall: None, ..e.clone() });
    }
    if e.spurious_pct > 0 {
        out.push(Env { spurious_pct: 0, ..e.clone() });
    }
    if e.tick_pct > 0 {
        out.push(Env { tick_pct: 0, ..e.clone() });
    }
    out
}

// =============================================================================== C11
#[derive(Serialize, Deserialize, Clone, Debug, PartialEq)]
pub enum GOp {
    /// set(m * 2^40)
    Set(u8),
    /// add(2^k)
    Add(u8),
    /// sub(2^k)
    Sub(u8),
    Inc,
    Dec,
    Get,
    /// set(+0.0) / set(-0.0) (float gauges; an integer gauge is set to 0)
    SetZero(bool),
    /// add(+0.0) / add(-0.0)
    AddZero(bool),
    /// integer gauges only: operands at the limits of i64 (arithmetic wraps)
    AddRaw(i64),
    SubRaw(i64),
    SetRaw(i64),
}
#[derive(Serialize, Deserialize, Clone, Debug)]
pub struct GaugePlan {
    pub env: Env,
    pub flavour: Flavour,
    pub origin: Origin,
    pub threads: Vec<Vec<GOp>>,
}
#[derive(Clone)]
enum Gg {
    F(Gauge),
    I(IntGauge),
}
impl Gg {
    fn apply(&self, op: &GOp) -> Option<i64> {
        match (self, op) {
            (Gg::F(g), GOp::Set(m)) => g.set(((*m as i64) << 40) as f64),
            (Gg::I(g), GOp::Set(m)) => g.set((*m as i64) << 40),
            (Gg::F(g), GOp::Add(k)) => g.add((1i64 << k) as f64),
            (Gg::I(g), GOp::Add(k)) => g.add(1i64 << k),
            (Gg::F(g), GOp::Sub(k)) => g.sub((1i64 << k) as f64),
            (Gg::I(g), GOp::Sub(k)) => g.sub(1i64 << k),
            (Gg::F(g), GOp::Inc) => g.inc(),
            (Gg::I(g), GOp::Inc) => g.inc(),
            (Gg::F(g), GOp::Dec) => g.dec(),
            (Gg::I(g), GOp::Dec) => g.dec(),
            (Gg::F(g), GOp::SetZero(neg)) => g.set(if *neg { -0.0 } else { 0.0 }),
            (Gg::I(g), GOp::SetZero(_)) => g.set(0),
            (Gg::F(g), GOp::AddZero(neg)) => g.add(if *neg { -0.0 } else { 0.0 }),
            (Gg::I(g), GOp::AddZero(_)) => g.add(0),
            (Gg::I(g), GOp::AddRaw(v)) => g.add(*v),
            (Gg::I(g), GOp::SubRaw(v)) => g.sub(*v),
            (Gg::I(g), GOp::SetRaw(v)) => g.set(*v),
            (Gg::F(_), GOp::AddRaw(_) | GOp::SubRaw(_) | GOp::SetRaw(_)) => {}
            (_, GOp::Get) => return Some(self.get()),
        }
        None
    }
    fn get(&self) -> i64 {
        match self {
            Gg::F(g) => {
                let v = g.get();
                if v.fract() == 0.0 && v.abs() < 9e15 {
                    v as i64
                } else {
                    i64::MIN
                }
            }
            Gg::I(g) => g.get(),
        }
    }
}
struct GaugeSpec;
impl Spec for GaugeSpec {
    type State = i64;
    type Op = (GOp, Option<i64>);
    fn step(&self, s: &i64, op: &Self::Op) -> Option<i64> {
        match &op.0 {
            GOp::Set(m) => Some((*m as i64) << 40),
            GOp::Add(k) => Some(s.wrapping_add(1i64 << k)),
            GOp::Sub(k) => Some(s.wrapping_sub(1i64 << k)),
            GOp::Inc => Some(s.wrapping_add(1)),
            GOp::Dec => Some(s.wrapping_sub(1)),
            GOp::AddRaw(v) => Some(s.wrapping_add(*v)),
            GOp::SubRaw(v) => Some(s.wrapping_sub(*v)),
            GOp::SetRaw(v) => Some(*v),
            GOp::SetZero(_) => Some(0),
            GOp::AddZero(_) => Some(*s),
            GOp::Get => {
                if op.1 == Some(*s) {
                    Some(*s)
                } else {
                    None
                }
            }
        }
    }
}

pub struct C11;
impl C11 {
    fn gen_plan(seed: u64) -> GaugePlan {
        let mut r = Rng::new(seed, 1);
        let flavour = if r.chance(60) { Flavour::Float } else { Flavour::Int };
        const LIMITS: &[i64] = &[i64::MIN, i64::MAX, -1, 1 << 62, i64::MIN + 1];
        let limits = flavour == Flavour::Int && r.chance(25);
        let mut threads = vec![];
        let mut nops = 0;
        let nthreads;
        if limits && r.chance(50) {
            // focused: one thread applies operands at the limits of i64, the others look and set
            nthreads = 2 + r.below(2) as usize;
            let n = 1 + r.below(3) as usize;
            threads.push((0..n).map(|_| if r.chance(50) { GOp::AddRaw(*r.pick(LIMITS)) } else { GOp::SubRaw(*r.pick(LIMITS)) }).collect::<Vec<_>>());
            nops += n as u64;
            for _ in 1..nthreads {
                let n = 1 + r.below(3) as usize;
                threads.push(
                    (0..n)
                        .map(|_| match r.below(10) {
                            0..=5 => GOp::Get,
                            6..=7 => GOp::Set(1 + r.below(100) as u8),
                            8 => GOp::SetRaw(*r.pick(LIMITS)),
                            _ => GOp::Inc,
                        })
                        .collect::<Vec<_>>(),
                );
                nops += n as u64;
            }
        } else {
            nthreads = if r.chance(8) { 1 } else { 2 + r.below(2) as usize };
            let with_set = r.chance(50);
            let paired = !with_set && r.chance(40);
            let mut next_bit = 8u8;
            for _ in 0..nthreads {
                let n = 1 + r.below(5) as usize;
                let mut ops: Vec<GOp> = vec![];
                let mut open: Vec<u8> = vec![];
                for _ in 0..n {
                    let op = match r.below(100) {
                        0..=24 => {
                            next_bit += 1;
                            open.push(next_bit - 1);
                            GOp::Add(next_bit - 1)
                        }
                        25..=39 => {
                            if paired {
                                match open.pop() {
                                    Some(k) => GOp::Sub(k),
                                    None => GOp::Get,
                                }
                            } else {
                                next_bit += 1;
                                GOp::Sub(next_bit - 1)
                            }
                        }
                        40..=49 => GOp::Inc,
                        50..=59 => GOp::Dec,
                        60..=74 => {
                            if with_set {
                                // signed zeros: the bit patterns differ although the values compare equal
                                match r.below(10) {
                                    0..=2 => GOp::SetZero(r.chance(50)),
                                    3 => GOp::AddZero(r.chance(50)),
                                    _ => GOp::Set(1 + r.below(100) as u8),
                                }
                            } else {
                                GOp::Get
                            }
                        }
                        _ => GOp::Get,
                    };
                    ops.push(op);
                    nops += 1;
                }
                if paired {
                    while let Some(k) = open.pop() {
                        ops.push(GOp::Sub(k));
                        nops += 1;
                    }
                }
                threads.push(ops);
            }
            if limits {
                for ops in threads.iter_mut() {
                    for op in ops.iter_mut() {
                        if !r.chance(50) {
                            continue;
                        }
                        match op {
                            GOp::Add(_) | GOp::Inc => *op = GOp::AddRaw(*r.pick(LIMITS)),
                            GOp::Sub(_) | GOp::Dec => *op = GOp::SubRaw(*r.pick(LIMITS)),
                            GOp::Set(_) => *op = GOp::SetRaw(*r.pick(LIMITS)),
                            _ => {}
                        }
                    }
                }
            }
        }
        let faults = r.chance(60);
        let env = Env::swarm(&mut r, nthreads, nops * 5 + 10, faults);
        let origin = if r.chance(70) { Origin::Standalone } else { Origin::VecChild };
        GaugePlan { env, flavour, origin, threads }
    }

    fn execute(plan: &GaugePlan, mode: Mode) -> RunOut {
        let sim = new_sim(&plan.env, mode);
        let results: Results<Option<i64>> = Arc::new(Mutex::new(vec![]));
        let opts = Opts::new("c11_gauge", "gauge under test");
        let g: Arc<Gg> = Arc::new(match (&plan.origin, &plan.flavour) {
            (Origin::VecChild, Flavour::Float) => Gg::F(GaugeVec::new(opts, &["l"]).unwrap().with_label_values(&["x"])),
            (Origin::VecChild, Flavour::Int) => Gg::I(IntGaugeVec::new(opts, &["l"]).unwrap().with_label_values(&["x"])),
            (_, Flavour::Float) => Gg::F(Gauge::with_opts(opts).unwrap()),
            (_, Flavour::Int) => Gg::I(IntGauge::with_opts(opts).unwrap()),
        });
        {
            let g = g.clone();
            spawn_threads(&sim, &plan.threads, &results, move |_ctx, _t, _i, op: &GOp| g.apply(op));
        }
        let res = sim.run();
        let mut out = base_out(&plan.env, &res);
        for (t, p) in &res.panics {
            out.violations.push(Violation::new("C11/panic", "C11/panic", format!("thread {} panicked: {}", t, p)));
        }
        if !is_finished(&res) {
            if res.outcome == crate::engine::Outcome::Stuck {
                out.violations.push(Violation::new("C11/stuck", "C11/stuck", "no thread can make progress".to_string()));
            }
            return out;
        }
        let iv = intervals(&res.log);
        let results = results.lock().unwrap();
        let mut h: Vec<HOp<(GOp, Option<i64>)>> = vec![];
        for (id, r) in results.iter() {
            let (inv, ret) = iv[id];
            let op = plan.threads[op_thread(*id)][*id as usize % 1000].clone();
            match r {
                Ok(v) => h.push(HOp { inv, ret, op: (op, *v) }),
                Err(p) => out.violations.push(Violation::new("C11/panic", "C11/panic", format!("op {:?} panicked: {}", op, p))),
            }
        }
        let end = res.log.len();
        h.push(HOp { inv: end + 1, ret: end + 2, op: (GOp::Get, Some(g.get())) });
        if linearize(&GaugeSpec, 0i64, &h).is_none() {
            let desc: Vec<String> = h.iter().map(|o| format!("[{}..{}] {:?}{}", o.inv, if o.ret == usize::MAX { 0 } else { o.ret }, o.op.0, o.op.1.map(|v| format!(" -> {}", v)).unwrap_or_default())).collect();
            out.violations.push(Violation::new("C11/linearizable", "C11/linearizable", format!("history (last entry = value after quiescence) is not linearizable against a sequential gauge: {}", desc.join("; "))));
        }
        // sub(x) undoes add(x): fully paired plans without set/inc/dec end at zero
        let flat: Vec<&GOp> = plan.threads.iter().flatten().collect();
        let only_pairs = flat.iter().all(|o| matches!(o, GOp::Add(_) | GOp::Sub(_) | GOp::Get | GOp::AddZero(_)));
        if only_pairs {
            let mut bal: std::collections::BTreeMap<u8, i32> = Default::default();
            for o in &flat {
                match o {
                    GOp::Add(k) => *bal.entry(*k).or_default() += 1,
                    GOp::Sub(k) => *bal.entry(*k).or_default() -= 1,
                    _ => {}
                }
            }
            if bal.values().all(|v| *v == 0) && g.get() != 0 {
                out.violations.push(Violation::new("C11/undo", "C11/undo", format!("every add(x) was followed by sub(x) yet the gauge reads {}", g.get())));
            }
        }
        out
    }
}

impl Scenario for C11 {
    fn id(&self) -> &'static str {
        "C11"
    }
    fn name(&self) -> &'static str {
        "gauge"
    }
    fn runs(&self, tier: Tier) -> u64 {
        match tier {
            Tier::Quick => 200_000,
            Tier::Thorough => 4_000_000,
        }
    }
    fn gen(&self, seed: u64, _tier: Tier) -> Value {
        serde_json::to_value(Self::gen_plan(seed)).unwrap()
    }
    fn run(&self, plan: &Value, mode: Mode) -> RunOut {
        let plan: GaugePlan = serde_json::from_value(plan.clone()).expect("C11 plan");
        let hs = plan.env.hash_seed;
        isolated(hs, move || Self::execute(&plan, mode))
    }
    fn shrink(&self, plan: &Value) -> Vec<Value> {
        let p: GaugePlan = serde_json::from_value(plan.clone()).unwrap();
        let mut c = shrink_threads(&p.threads).into_iter().map(|t| GaugePlan { threads: t, ..p.clone() }).collect::<Vec<_>>();
        for e in shrink_env(&p.env) {
            c.push(GaugePlan { env: e, ..p.clone() });
        }
        if p.origin != Origin::Standalone {
            c.push(GaugePlan { origin: Origin::Standalone, ..p.clone() });
        }
        c.into_iter().map(|p| serde_json::to_value(p).unwrap()).collect()
    }
    fn info(&self) -> Info {
        Info {
            rule: "one run = one generated plan (1-3 threads x 1-5 set/add/sub/inc/dec/get ops on one shared Gauge/IntGauge, standalone or vector child) under one seeded schedule; the recorded history plus the quiescent value is checked for linearizability (Wing-Gong search) against a sequential integer; non-trivial = API calls of different threads overlapped; distinct = distinct conflict signatures",
            assumptions: vec!["sequentially consistent interleavings at shim-visible operations", "compare_exchange_weak may fail spuriously (injected)"],
            real: vec!["prometheus::{Gauge,IntGauge,GaugeVec,IntGaugeVec} (all code)", "std atomics underneath the shim"],
            stubbed: vec!["thread scheduling (baton)", "lock arbitration", "spurious CAS failure"],
            expected_probes: vec!["cas_real_conflict", "api_calls_overlapping"],
        }
    }
}
