//! C12: local (unsync) metrics hand over exactly what they accumulated.
use crate::common::*;
use crate::compat;
use crate::driver::{Info, RunOut, Scenario, Tier, Violation};
use crate::engine::{Env, Mode, Outcome};
use crate::rng::Rng;
use crate::scen::value::{shrink_env, shrink_threads};
use prometheus::core::Collector;
use prometheus::local::*;
use prometheus::*;
use serde::{Deserialize, Serialize};
use serde_json::Value;
use std::collections::BTreeMap;
use std::sync::{Arc, Mutex};

#[derive(Serialize, Deserialize, Clone, Debug, PartialEq)]
pub enum SharedKind {
    Counter,
    IntCounter,
    Histogram,
    CounterVec,
    HistogramVec,
}
#[derive(Serialize, Deserialize, Clone, Debug, PartialEq)]
pub enum LOp {
    /// local update of weight 2^bit through handle h (vector kinds: for tuple t)
    Add { h: usize, bit: u8, t: usize },
    Flush { h: usize },
    /// reset (counters) / clear (histograms); not available on local vectors
    Reset { h: usize },
    /// clone handle h into a new handle (appended to the thread's handle list)
    Clone { h: usize },
    Drop { h: usize },
    /// the handle is dropped while the thread unwinds from a panic (caught inside the operation)
    PanicDrop { h: usize },
    /// local vectors only
    Remove { h: usize, t: usize },
    /// read the local handle's own getters
    LocalGet { h: usize, t: usize },
    /// update the shared metric directly
    Direct { bit: u8, t: usize },
    /// read the shared metric
    Read,
}
#[derive(Serialize, Deserialize, Clone, Debug)]
pub struct LocalPlan {
    pub env: Env,
    pub kind: SharedKind,
    /// histogram kinds only: an update of odd weight exponent observes -(2^k) instead of 2^k, so that
    /// batches with negative, zero-crossing and cancelling sums occur
    #[serde(default)]
    pub signed: bool,
    /// every thread starts with one local handle (index 0)
    pub threads: Vec<Vec<LOp>>,
    /// histogram kinds: bucket bounds 2^b (and -(2^b) in signed plans); empty = one bucket le=1e300
    #[serde(default)]
    pub bound_bits: Vec<u8>,
    /// threads end by panicking: the remaining handles are dropped by unwinding
    #[serde(default)]
    pub panic_end: bool,
    /// vector kinds: two labels whose values shift a U+00FF across the label boundary
    /// (["x\u{ff}y", "z"] and ["x", "y\u{ff}z"]) instead of one label with the values x / y
    #[serde(default)]
    pub two_labels: bool,
    /// signed histogram plans only: two updates out of three observe 0.0 (weight exponent % 3 != 1),
    /// so that batches with a non-zero count and a sum of exactly zero occur (seeded change C12-r17)
    #[serde(default)]
    pub zeros: bool,
}
/// set at the start of every run (runs of one worker process are sequential)
static ZEROS: std::sync::atomic::AtomicBool = std::sync::atomic::AtomicBool::new(false);
/// set at the start of every run (runs of one worker process are sequential)
static TWO_LABELS: std::sync::atomic::AtomicBool = std::sync::atomic::AtomicBool::new(false);
fn two() -> bool {
    TWO_LABELS.load(std::sync::atomic::Ordering::SeqCst)
}
fn tuple(t: usize) -> Vec<&'static str> {
    if two() {
        [["x\u{ff}y", "z"], ["x", "y\u{ff}z"]][t].to_vec()
    } else {
        vec![TUPLES[t]]
    }
}
fn label_names() -> Vec<&'static str> {
    if two() {
        vec!["l", "m"]
    } else {
        vec!["l"]
    }
}
fn key_of(t: usize) -> String {
    tuple(t).join("\u{1}")
}
fn bounds_of(plan: &LocalPlan) -> Vec<f64> {
    if plan.bound_bits.is_empty() {
        return vec![1e300];
    }
    let mut b: Vec<f64> = plan.bound_bits.iter().map(|b| (1u64 << b) as f64).collect();
    if plan.signed {
        let neg: Vec<f64> = b.iter().map(|x| -x).collect();
        b.extend(neg);
    }
    b.sort_by(|a, b| a.partial_cmp(b).unwrap());
    b.dedup();
    b
}
const TUPLES: &[&str] = &["x", "y"];

/// observed value of an update with weight exponent `bit`
fn val(bit: u8, signed: bool) -> f64 {
    if signed && bit % 3 != 1 && ZEROS.load(std::sync::atomic::Ordering::SeqCst) {
        return 0.0;
    }
    let v = (1u64 << bit) as f64;
    if signed && bit % 2 == 1 {
        -v
    } else {
        v
    }
}
/// exact sum of the values of all updates in `bits`
fn sum_of(bits: u64, signed: bool) -> f64 {
    (0..64u8).filter(|b| bits & (1u64 << b) != 0).map(|b| val(b, signed)).sum()
}

fn gen_plan(seed: u64) -> LocalPlan {
    let mut r = Rng::new(seed, 1);
    let kind = r.pick(&[SharedKind::Counter, SharedKind::IntCounter, SharedKind::Histogram, SharedKind::CounterVec, SharedKind::HistogramVec]).clone();
    let is_vec = matches!(kind, SharedKind::CounterVec | SharedKind::HistogramVec);
    let nthreads = if r.chance(65) { 1 } else { 2 };
    let mut bit = 8u8;
    let mut threads = vec![];
    let mut nops = 0;
    for _ in 0..nthreads {
        let n = 3 + r.below(9) as usize;
        let mut nh = 1usize;
        let mut ops = vec![];
        for _ in 0..n {
            let h = r.below(nh as u64) as usize;
            let t = r.below(TUPLES.len() as u64) as usize;
            let op = match r.below(100) {
                0..=34 => {
                    bit += 1;
                    LOp::Add { h, bit: bit - 1, t }
                }
                35..=49 => LOp::Flush { h },
                50..=56 if !is_vec => LOp::Reset { h },
                57..=63 if nh < 3 => {
                    nh += 1;
                    LOp::Clone { h }
                }
                64..=67 => LOp::Drop { h },
                68..=69 => LOp::PanicDrop { h },
                70..=76 if is_vec && nthreads == 1 => LOp::Remove { h, t },
                75..=82 => LOp::LocalGet { h, t },
                83..=90 => {
                    bit += 1;
                    LOp::Direct { bit: bit - 1, t }
                }
                _ => LOp::Read,
            };
            ops.push(op);
            nops += 1;
        }
        if is_vec && nthreads == 1 && r.chance(25) {
            // two handles cache the same child; it is removed through one of them, then the other
            // handle removes (refused: already gone), updates and flushes the same label values
            let t = r.below(TUPLES.len() as u64) as usize;
            let h2 = if nh < 3 {
                ops.push(LOp::Clone { h: 0 });
                nh += 1;
                nh - 1
            } else {
                1
            };
            bit += 3;
            ops.push(LOp::Add { h: h2, bit: bit - 3, t });
            ops.push(LOp::Add { h: 0, bit: bit - 2, t });
            if r.chance(50) {
                ops.push(LOp::Flush { h: h2 });
            }
            ops.push(LOp::Remove { h: 0, t });
            ops.push(LOp::Remove { h: h2, t });
            ops.push(LOp::Add { h: h2, bit: bit - 1, t });
            ops.push(LOp::Flush { h: h2 });
        }
        ops.push(LOp::Read);
        threads.push(ops);
    }
    let faults = r.chance(40);
    let env = Env::swarm(&mut r, nthreads, nops as u64 * 6 + 10, faults);
    let is_hist = matches!(kind, SharedKind::Histogram | SharedKind::HistogramVec);
    let signed = is_hist && r.chance(40);
    // bounds that coincide with observed values (weights start at 2^8)
    let bound_bits: Vec<u8> = if is_hist && r.chance(50) {
        let n = if r.chance(15) { 17 + r.below(8) } else { 1 + r.below(4) };
        let mut b: Vec<u8> = (0..n).map(|_| 6 + r.below((bit as u64).saturating_sub(4).max(2)) as u8).collect();
        b.sort();
        b.dedup();
        b
    } else {
        vec![]
    };
    let panic_end = r.chance(15);
    let two_labels = is_vec && r.chance(35);
    let zeros = signed && r.chance(35);
    LocalPlan { env, kind, signed, threads, bound_bits, panic_end, two_labels, zeros }
}

enum Shared {
    C(Counter),
    IC(IntCounter),
    H(Histogram),
    CV(CounterVec),
    HV(HistogramVec),
}
enum Loc {
    C(LocalCounter),
    IC(LocalIntCounter),
    H(LocalHistogram),
    CV(LocalCounterVec),
    HV(LocalHistogramVec),
}
fn hopts(plan: &LocalPlan) -> HistogramOpts {
    HistogramOpts::new("c12_m", "help").buckets(bounds_of(plan))
}
/// what a read of the shared metric shows for one child
#[derive(Clone, Debug, PartialEq)]
pub struct RV {
    sum: f64,
    count: u64,
    buckets: Vec<(f64, u64)>,
}
impl Shared {
    fn new(plan: &LocalPlan) -> Shared {
        let o = Opts::new("c12_m", "help");
        let hopts = || hopts(plan);
        match &plan.kind {
            SharedKind::Counter => Shared::C(Counter::with_opts(o).unwrap()),
            SharedKind::IntCounter => Shared::IC(IntCounter::with_opts(o).unwrap()),
            SharedKind::Histogram => Shared::H(Histogram::with_opts(hopts()).unwrap()),
            SharedKind::CounterVec => Shared::CV(CounterVec::new(o, &label_names()).unwrap()),
            SharedKind::HistogramVec => Shared::HV(HistogramVec::new(hopts(), &label_names()).unwrap()),
        }
    }
    fn local(&self) -> Loc {
        match self {
            Shared::C(c) => Loc::C(c.local()),
            Shared::IC(c) => Loc::IC(c.local()),
            Shared::H(c) => Loc::H(c.local()),
            Shared::CV(c) => Loc::CV(c.local()),
            Shared::HV(c) => Loc::HV(c.local()),
        }
    }
    fn direct(&self, w: u64, t: usize, hv: f64) {
        match self {
            Shared::C(c) => c.inc_by(w as f64),
            Shared::IC(c) => c.inc_by(w),
            Shared::H(c) => c.observe(hv),
            Shared::CV(c) => c.with_label_values(&tuple(t)).inc_by(w as f64),
            Shared::HV(c) => c.with_label_values(&tuple(t)).observe(hv),
        }
    }
    /// a handle to the shared child of tuple t (vector kinds), read later as (sum, count)
    fn child(&self, t: usize) -> Option<Box<dyn Fn() -> (f64, u64) + Send>> {
        match self {
            Shared::CV(c) => {
                let h = c.with_label_values(&tuple(t));
                Some(Box::new(move || (h.get(), 0)))
            }
            Shared::HV(c) => {
                let h = c.with_label_values(&tuple(t));
                Some(Box::new(move || (h.get_sample_sum(), h.get_sample_count())))
            }
            _ => None,
        }
    }
    /// value per tuple ("" for scalar kinds)
    fn read(&self) -> BTreeMap<String, RV> {
        let mfs = match self {
            Shared::C(c) => c.collect(),
            Shared::IC(c) => c.collect(),
            Shared::H(c) => c.collect(),
            Shared::CV(c) => c.collect(),
            Shared::HV(c) => c.collect(),
        };
        let f = compat::family_of(&mfs[0]);
        let mut out = BTreeMap::new();
        for m in &f.metrics {
            let key = ["l", "m"].iter().filter_map(|n| m.labels.iter().find(|(k, _)| k == n).map(|(_, v)| v.clone())).collect::<Vec<_>>().join("\u{1}");
            let v = match (&m.counter, &m.hist) {
                (Some(c), _) => RV { sum: *c, count: 0, buckets: vec![] },
                (_, Some(h)) => RV { sum: h.sum, count: h.count, buckets: h.buckets.clone() },
                _ => RV { sum: f64::NAN, count: 0, buckets: vec![] },
            };
            out.insert(key, v);
        }
        out
    }
}
impl Loc {
    fn add(&mut self, w: u64, t: usize, hv: f64) {
        match self {
            Loc::C(c) => c.inc_by(w as f64),
            Loc::IC(c) => c.inc_by(w),
            Loc::H(c) => c.observe(hv),
            Loc::CV(c) => c.with_label_values(&tuple(t)).inc_by(w as f64),
            Loc::HV(c) => c.with_label_values(&tuple(t)).observe(hv),
        }
    }
    /// flushes twice (the second must add nothing); the second goes through the LocalMetric trait
    fn flush(&self) {
        match self {
            Loc::C(c) => {
                c.flush();
                prometheus::local::LocalMetric::flush(c)
            }
            Loc::IC(c) => {
                c.flush();
                prometheus::local::LocalMetric::flush(c)
            }
            Loc::H(c) => {
                c.flush();
                prometheus::local::LocalMetric::flush(c)
            }
            Loc::CV(c) => {
                c.flush();
                prometheus::local::LocalMetric::flush(c)
            }
            Loc::HV(c) => {
                c.flush();
                prometheus::local::LocalMetric::flush(c)
            }
        }
    }
    fn reset(&self) {
        match self {
            Loc::C(c) => c.reset(),
            Loc::IC(c) => c.reset(),
            Loc::H(c) => c.clear(),
            _ => {}
        }
    }
    fn dup(&self) -> Loc {
        match self {
            Loc::C(c) => Loc::C(c.clone()),
            Loc::IC(c) => Loc::IC(c.clone()),
            Loc::H(c) => Loc::H(c.clone()),
            Loc::CV(c) => Loc::CV(c.clone()),
            Loc::HV(c) => Loc::HV(c.clone()),
        }
    }
    fn remove(&mut self, t: usize) -> bool {
        match self {
            Loc::CV(c) => c.remove_label_values(&tuple(t)).is_ok(),
            Loc::HV(c) => c.remove_label_values(&tuple(t)).is_ok(),
            _ => false,
        }
    }
    /// (pending sum, pending count) as the handle's own getters report it
    fn get(&mut self, t: usize) -> (f64, Option<u64>) {
        match self {
            Loc::C(c) => (c.get(), None),
            Loc::IC(c) => (c.get() as f64, None),
            Loc::H(c) => (c.get_sample_sum(), Some(c.get_sample_count())),
            Loc::CV(c) => (c.with_label_values(&tuple(t)).get(), None),
            Loc::HV(c) => {
                let l = c.with_label_values(&tuple(t));
                (l.get_sample_sum(), Some(l.get_sample_count()))
            }
        }
    }
}

#[derive(Clone, Debug)]
enum LRes {
    None,
    Got(f64, Option<u64>),
    /// (removal accepted, value read afterwards through a handle to the shared child taken before the
    /// removal: sum, count)
    Removed(bool, Option<(f64, u64)>),
    Read(BTreeMap<String, RV>),
}

fn execute(plan: &LocalPlan, mode: Mode) -> RunOut {
    TWO_LABELS.store(plan.two_labels, std::sync::atomic::Ordering::SeqCst);
    ZEROS.store(plan.zeros, std::sync::atomic::Ordering::SeqCst);
    let sim = new_sim(&plan.env, mode);
    let shared = Arc::new(Shared::new(plan));
    let results: Results<LRes> = Arc::new(Mutex::new(vec![]));
    let keep = Keep::new();
    let is_hist = matches!(plan.kind, SharedKind::Histogram | SharedKind::HistogramVec);
    let is_vec = matches!(plan.kind, SharedKind::CounterVec | SharedKind::HistogramVec);
    for (t, ops) in plan.threads.iter().enumerate() {
        let ops = ops.clone();
        let shared = shared.clone();
        let results = results.clone();
        let signed = plan.signed;
        let panic_end = plan.panic_end;
        sim.spawn(&format!("sim{}", t), false, move |ctx| {
            // local handles are !Sync and live on their owner thread
            let mut hs: Vec<Option<Loc>> = vec![Some(shared.local())];
            // handles to shared children, taken right after a direct update (the child exists then)
            let mut held: BTreeMap<usize, Box<dyn Fn() -> (f64, u64) + Send>> = BTreeMap::new();
            for (i, op) in ops.iter().enumerate() {
                let id = op_id(t, i);
                ctx.invoke(id);
                let r = crate::seams::catch(std::panic::AssertUnwindSafe(|| match op {
                    LOp::Add { h, bit, t } => {
                        if let Some(Some(l)) = hs.get_mut(*h) {
                            l.add(1u64 << bit, *t, val(*bit, signed));
                        }
                        LRes::None
                    }
                    LOp::Flush { h } => {
                        if let Some(Some(l)) = hs.get(*h) {
                            l.flush();
                        }
                        LRes::None
                    }
                    LOp::Reset { h } => {
                        if let Some(Some(l)) = hs.get(*h) {
                            l.reset();
                        }
                        LRes::None
                    }
                    LOp::Clone { h } => {
                        let n = hs.get(*h).and_then(|x| x.as_ref().map(|l| l.dup()));
                        hs.push(n);
                        LRes::None
                    }
                    LOp::Drop { h } => {
                        if let Some(x) = hs.get_mut(*h) {
                            *x = None;
                        }
                        LRes::None
                    }
                    LOp::PanicDrop { h } => {
                        if let Some(x) = hs.get_mut(*h) {
                            if let Some(l) = x.take() {
                                drop_while_unwinding(l);
                            }
                        }
                        LRes::None
                    }
                    LOp::Remove { h, t } => match hs.get_mut(*h) {
                        Some(Some(l)) => {
                            let ok = l.remove(*t);
                            LRes::Removed(ok, held.remove(t).map(|f| f()))
                        }
                        _ => LRes::None,
                    },
                    LOp::LocalGet { h, t } => match hs.get_mut(*h) {
                        Some(Some(l)) => {
                            let (a, b) = l.get(*t);
                            LRes::Got(a, b)
                        }
                        _ => LRes::None,
                    },
                    LOp::Direct { bit, t } => {
                        shared.direct(1u64 << bit, *t, val(*bit, signed));
                        if let Some(f) = shared.child(*t) {
                            held.insert(*t, f);
                        }
                        LRes::None
                    }
                    LOp::Read => LRes::Read(shared.read()),
                }));
                ctx.ret(id);
                results.lock().unwrap().push((id, r));
            }
            // thread end: remaining handles are dropped (local histograms flush)
            let id = op_id(t, ops.len());
            ctx.invoke(id);
            if panic_end {
                drop_while_unwinding(hs);
            } else {
                drop(hs);
            }
            ctx.ret(id);
        });
    }
    let fin: Arc<Mutex<Option<BTreeMap<String, RV>>>> = Arc::new(Mutex::new(None));
    {
        let shared = shared.clone();
        let fin = fin.clone();
        spawn_final(&sim, move |_| {
            *fin.lock().unwrap() = Some(shared.read());
        });
    }
    let res = sim.run();
    keep.push(shared.clone());
    let mut out = base_out(&plan.env, &res);
    out.nontrivial = plan.threads.iter().map(|t| t.len()).sum::<usize>() >= 3;
    for (t, p) in &res.panics {
        out.violations.push(Violation::new("C12/panic", "C12/panic", format!("thread {} panicked: {}", t, p)));
    }
    if res.outcome == Outcome::Stuck {
        out.violations.push(Violation::new("C12/stuck", "C12/stuck", "no thread can make progress".to_string()));
        return out;
    }
    if !is_finished(&res) {
        return out;
    }
    // ---- reference model, replayed per thread in program order (handles are thread-private)
    // shared[tuple] = bits delivered; for concurrent plans only the quiescent state is compared
    let results = results.lock().unwrap();
    let res_of = |id: u32| results.iter().find(|(i, _)| *i == id).map(|(_, r)| r.clone());
    let single = plan.threads.len() == 1;
    let mut shared_m: BTreeMap<usize, u64> = BTreeMap::new(); // attached children (vector kinds) / key 0
    let mut detached_lost = false;
    let mut n_flush_nonempty = 0u64;
    let mut n_drop_pending = 0u64;
    for (t, ops) in plan.threads.iter().enumerate() {
        // pending per handle: tuple -> bits
        let mut pend: Vec<Option<BTreeMap<usize, u64>>> = vec![Some(BTreeMap::new())];
        // which handles hold a binding to a child that has been removed from the vector
        let mut stale: Vec<BTreeMap<usize, bool>> = vec![BTreeMap::new()];
        // tuples for which the thread holds a handle to the CURRENT shared child (taken at a direct update)
        let mut held_valid: BTreeMap<usize, bool> = BTreeMap::new();
        for (i, op) in ops.iter().enumerate() {
            let id = op_id(t, i);
            let key = |t: usize| if is_vec { t } else { 0 };
            match op {
                LOp::Add { h, bit, t } => {
                    if let Some(Some(p)) = pend.get_mut(*h) {
                        *p.entry(key(*t)).or_default() |= 1u64 << bit;
                        if is_vec && !stale[*h].get(&key(*t)).copied().unwrap_or(false) {
                            shared_m.entry(key(*t)).or_default();
                        }
                    }
                }
                LOp::Flush { h } => {
                    if let Some(Some(p)) = pend.get_mut(*h) {
                        for (k, v) in p.iter_mut() {
                            if *v != 0 {
                                n_flush_nonempty += 1;
                                if stale[*h].get(k).copied().unwrap_or(false) {
                                    detached_lost = true; // delivered to a child no longer in the vector
                                } else {
                                    *shared_m.entry(*k).or_default() |= *v;
                                }
                                *v = 0;
                            }
                        }
                    }
                }
                LOp::Reset { h } => {
                    if let Some(Some(p)) = pend.get_mut(*h) {
                        p.clear();
                    }
                }
                LOp::Clone { h } => {
                    let exists = matches!(pend.get(*h), Some(Some(_)));
                    pend.push(if exists { Some(BTreeMap::new()) } else { None });
                    stale.push(BTreeMap::new());
                }
                LOp::Drop { h } | LOp::PanicDrop { h } => {
                    if let Some(x) = pend.get_mut(*h) {
                        if let Some(p) = x.take() {
                            if p.values().any(|v| *v != 0) {
                                n_drop_pending += 1;
                            }
                            if is_hist {
                                for (k, v) in p {
                                    if v != 0 {
                                        if stale[*h].get(&k).copied().unwrap_or(false) {
                                            detached_lost = true;
                                        } else {
                                            *shared_m.entry(k).or_default() |= v;
                                        }
                                    }
                                }
                            }
                        }
                    }
                }
                LOp::Remove { h, t } => {
                    if let Some(Some(p)) = pend.get_mut(*h) {
                        // the local entry is dropped (a local histogram flushes into the child that is
                        // about to be removed), then the child is removed from the shared vector
                        let dropped = p.remove(t).unwrap_or(0);
                        let was_stale = stale[*h].remove(t).unwrap_or(false);
                        let before = shared_m.remove(t);
                        let was = before.is_some();
                        if let Some(Ok(LRes::Removed(ok, detached))) = res_of(id) {
                            if ok != was {
                                out.violations.push(Violation::new("C12/remove", "C12/remove", format!("remove_label_values op {} returned {} but the shared vector {} a child for that tuple", id, ok, if was { "had" } else { "had no" })));
                            }
                            // a handle to the shared child taken before the removal still shows what the child
                            // held, including the local histogram's pending batch (dropped = flushed)
                            if let (Some((sum, cnt)), Some(b), true) = (detached, before, held_valid.remove(t).unwrap_or(false)) {
                                let bits = if is_hist && !was_stale { b | dropped } else { b };
                                let want_sum = if is_hist { sum_of(bits, plan.signed) } else { bits as f64 };
                                if sum != want_sum || (is_hist && cnt != bits.count_ones() as u64) {
                                    out.violations.push(Violation::new("C12/handover", "C12/handover:removed-child", format!("remove_label_values op {}: a handle to the removed child reads {} (count {}) but the child had received {:#x} and the dropped local entry held {:#x}", id, sum, cnt, b, dropped)));
                                }
                            }
                        }
                        held_valid.remove(t);
                        // other handles of this thread that cached the child now point to a detached one
                        for (j, s) in stale.iter_mut().enumerate() {
                            if j != *h {
                                if let Some(Some(pp)) = pend.get(j) {
                                    if pp.contains_key(t) {
                                        s.insert(*t, true);
                                    }
                                }
                            }
                        }
                    }
                }
                LOp::LocalGet { h, t } => {
                    if let (Some(Some(p)), Some(Ok(LRes::Got(sum, cnt)))) = (pend.get_mut(*h), res_of(id)) {
                        if is_vec {
                            // the getter creates the local entry (and the shared child) if missing
                            p.entry(key(*t)).or_default();
                            if !stale[*h].get(&key(*t)).copied().unwrap_or(false) {
                                shared_m.entry(key(*t)).or_default();
                            }
                        }
                        let want = p.get(&key(*t)).copied().unwrap_or(0);
                        let want_sum = if is_hist { sum_of(want, plan.signed) } else { want as f64 };
                        if sum != want_sum || cnt.map(|c| c != want.count_ones() as u64).unwrap_or(false) {
                            out.violations.push(Violation::new("C12/local-get", "C12/local-get", format!("local handle {} of thread {} reports {} (count {:?}) but its unflushed updates sum to {}", h, t, sum, cnt, want)));
                        }
                    }
                }
                LOp::Direct { bit, t } => {
                    *shared_m.entry(key(*t)).or_default() |= 1u64 << bit;
                    if is_vec {
                        held_valid.insert(*t, true);
                    }
                }
                LOp::Read => {
                    if single {
                        if let Some(Ok(LRes::Read(got))) = res_of(id) {
                            compare(plan, &shared_m, &got, &format!("read op {}", id), is_vec, is_hist, detached_lost, &mut out);
                        }
                    }
                }
            }
        }
        // thread end: handles dropped
        for (h, x) in pend.iter_mut().enumerate() {
            if let Some(p) = x.take() {
                if is_hist {
                    for (k, v) in p {
                        if v != 0 {
                            if stale[h].get(&k).copied().unwrap_or(false) {
                                detached_lost = true;
                            } else {
                                *shared_m.entry(k).or_default() |= v;
                            }
                        }
                    }
                }
            }
        }
    }
    for (_, r) in results.iter() {
        if let Err(p) = r {
            out.violations.push(Violation::new("C12/panic", "C12/panic", format!("operation panicked: {}", p)));
        }
    }
    if let Some(got) = fin.lock().unwrap().clone() {
        compare(plan, &shared_m, &got, "after all threads finished", is_vec, is_hist, detached_lost, &mut out);
    }
    let mut fp = crate::rng::Fp::default();
    fp.str(&serde_json::to_string(&(&plan.kind, &plan.threads, plan.two_labels)).unwrap());
    out.signature = out.signature.wrapping_add(fp.0);
    let n_panic = plan.threads.iter().flatten().filter(|o| matches!(o, LOp::PanicDrop { .. })).count() as u64 + if plan.panic_end { plan.threads.len() as u64 } else { 0 };
    out.faults.push(("injected_panic_unwinding", n_panic));
    out.probes.push(("nonempty_flushes", n_flush_nonempty));
    out.probes.push(("drops_with_pending_data", n_drop_pending));
    out.probes.push(("concurrent_plans", (!single) as u64));
    out
}

fn compare(plan: &LocalPlan, model: &BTreeMap<usize, u64>, got: &BTreeMap<String, RV>, when: &str, is_vec: bool, is_hist: bool, _detached: bool, out: &mut RunOut) {
    let mut want: BTreeMap<String, u64> = BTreeMap::new();
    if is_vec {
        for (k, v) in model {
            want.insert(key_of(*k), *v);
        }
    } else {
        want.insert(String::new(), model.get(&0).copied().unwrap_or(0));
    }
    let gk: Vec<&String> = got.keys().collect();
    let wk: Vec<&String> = want.keys().collect();
    if gk != wk {
        out.violations.push(Violation::new("C12/handover", "C12/children", format!("{}: shared {:?} has children {:?}, the model has {:?}", when, plan.kind, gk, wk)));
        return;
    }
    let bounds = bounds_of(plan);
    for (k, w) in &want {
        let RV { sum, count: cnt, buckets } = got[k].clone();
        let want_sum = if is_hist { sum_of(*w, plan.signed) } else { *w as f64 };
        let child = if k.is_empty() { String::new() } else { format!("{{l={:?}}}", k) };
        if sum != want_sum || (is_hist && cnt != w.count_ones() as u64) {
            let extra = if plan.signed { 0 } else { f2u(sum).map(|u| u & !*w).unwrap_or(0) };
            let missing = if plan.signed { 0 } else { f2u(sum).map(|u| *w & !u).unwrap_or(*w) };
            let key = if missing != 0 && extra == 0 {
                "C12/handover:lost"
            } else if extra != 0 && missing == 0 {
                "C12/handover:extra"
            } else {
                "C12/handover"
            };
            out.violations.push(Violation::new("C12/handover", key, format!("{}: shared {:?}{} holds {} (count {}) but direct updates plus flushed batches sum to {} (count {}; missing {:#x}, unexpected {:#x})", when, plan.kind, child, sum, cnt, want_sum, w.count_ones(), missing, extra)));
        } else if is_hist {
            // every bucket holds exactly the delivered observations not greater than its bound
            let want_b: Vec<(f64, u64)> = bounds.iter().map(|ub| (*ub, (0..64u8).filter(|b| *w & (1u64 << b) != 0 && val(*b, plan.signed) <= *ub).count() as u64)).collect();
            if buckets != want_b {
                out.violations.push(Violation::new("C12/handover", "C12/handover:buckets", format!("{}: shared {:?}{} has count and sum of the delivered observations but buckets {:?}; by value they must be {:?}", when, plan.kind, child, buckets, want_b)));
            }
        }
    }
}

pub struct C12;
impl Scenario for C12 {
    fn id(&self) -> &'static str {
        "C12"
    }
    fn name(&self) -> &'static str {
        "local-handover"
    }
    fn runs(&self, tier: Tier) -> u64 {
        match tier {
            Tier::Quick => 150_000,
            Tier::Thorough => 4_000_000,
        }
    }
    fn gen(&self, seed: u64, _tier: Tier) -> Value {
        serde_json::to_value(gen_plan(seed)).unwrap()
    }
    fn run(&self, plan: &Value, mode: Mode) -> RunOut {
        let plan: LocalPlan = serde_json::from_value(plan.clone()).expect("C12 plan");
        let hs = plan.env.hash_seed;
        isolated(hs, move || execute(&plan, mode))
    }
    fn shrink(&self, plan: &Value) -> Vec<Value> {
        let p: LocalPlan = serde_json::from_value(plan.clone()).unwrap();
        let mut c = vec![];
        for threads in shrink_threads(&p.threads) {
            // handle indices must stay valid: a removed Clone shifts later handle numbers
            let ok = threads.iter().all(|ops| {
                let mut nh = 1;
                ops.iter().all(|o| {
                    let h = match o {
                        LOp::Add { h, .. } | LOp::Flush { h } | LOp::Reset { h } | LOp::Drop { h } | LOp::PanicDrop { h } | LOp::Remove { h, .. } | LOp::LocalGet { h, .. } => Some(*h),
                        LOp::Clone { h } => {
                            let ok = *h < nh;
                            nh += 1;
                            return ok;
                        }
                        _ => None,
                    };
                    h.map(|h| h < nh).unwrap_or(true)
                })
            });
            if ok {
                c.push(LocalPlan { threads, ..p.clone() });
            }
        }
        for e in shrink_env(&p.env) {
            c.push(LocalPlan { env: e, ..p.clone() });
        }
        c.into_iter().map(|p| serde_json::to_value(p).unwrap()).collect()
    }
    fn info(&self) -> Info {
        Info {
            rule: "one run = one shared metric (counter, int counter, histogram, counter vector, histogram vector) and 1-2 simulated threads, each owning 1-3 local handles (clones included), executing 3-12 operations: local update of weight 2^k, flush (always issued twice, the second time through the LocalMetric trait), reset/clear, clone, drop, drop while unwinding from an injected panic, remove_label_values, local getters, direct update of the shared metric, read; a per-handle pending model predicts after every operation (single-threaded plans) and at quiescence (all plans; read under the scheduler) what the shared metric must hold; non-trivial = >=3 operations; distinct = distinct (kind, operation lists, interleaving)",
            assumptions: vec!["sequentially consistent interleavings at shim-visible operations", "remove_label_values is generated only in single-threaded plans; an update flushed through a handle whose child was removed from the vector is delivered to the detached child and not expected in the vector"],
            real: vec!["prometheus::local::{LocalCounter,LocalIntCounter,LocalHistogram,LocalCounterVec,LocalHistogramVec} and the shared metrics they feed"],
            stubbed: vec!["thread scheduling", "spurious CAS failure", "stalls", "panics (raised by the harness, caught after the destructors ran)"],
            expected_probes: vec!["nonempty_flushes", "drops_with_pending_data", "concurrent_plans"],
        }
    }
}
