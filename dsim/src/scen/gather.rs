//! C07 (gather complete / canonical / deterministic) and C14 (no mixed types): the same logical
//! registry content materialised K times under different hash seeds and registration orders.
use crate::common::*;
use crate::compat::{self, PFamily, PMetric, PType};
use crate::driver::{Info, RunOut, Scenario, Tier, Violation};
use crate::engine::{Env, Mode, Outcome};
use crate::rng::Rng;
use crate::seams::set_hash_seed;
use prometheus::*;
use serde::{Deserialize, Serialize};
use serde_json::Value;
use std::collections::{BTreeMap, HashMap};
use std::sync::{Arc, Mutex};

#[derive(Serialize, Deserialize, Clone, Debug, PartialEq)]
pub enum MK {
    Counter,
    IntCounter,
    Gauge,
    IntGauge,
    Histogram,
    Pulling,
    CounterVec,
    IntGaugeVec,
    HistogramVec,
}
impl MK {
    pub fn ptype(&self) -> PType {
        match self {
            MK::Counter | MK::IntCounter | MK::CounterVec => PType::Counter,
            MK::Gauge | MK::IntGauge | MK::Pulling | MK::IntGaugeVec => PType::Gauge,
            MK::Histogram | MK::HistogramVec => PType::Histogram,
        }
    }
    fn is_vec(&self) -> bool {
        matches!(self, MK::CounterVec | MK::IntGaugeVec | MK::HistogramVec)
    }
}
#[derive(Serialize, Deserialize, Clone, Debug, PartialEq)]
pub struct MetricSpec {
    pub kind: MK,
    pub name: String,
    pub help: String,
    pub consts: Vec<(String, String)>,
    pub vars: Vec<String>,
    /// children of a vector: (label values, value); for plain metrics one entry with no values
    pub children: Vec<(Vec<String>, u32)>,
    /// C16 only: a special float (bit pattern, see compat::fbits) that a float gauge / pulling gauge /
    /// float counter holds instead of children[0].1
    #[serde(default)]
    pub special: Option<String>,
}
#[derive(Serialize, Deserialize, Clone, Debug)]
pub struct GatherPlan {
    pub env: Env,
    pub prefix: Option<String>,
    pub common: Vec<(String, String)>,
    pub metrics: Vec<MetricSpec>,
    /// per replica: registration order and hash seed
    pub orders: Vec<Vec<usize>>,
    pub hash_seeds: Vec<u64>,
    pub concurrent_gather: bool,
    /// collectors that every replica registers and unregisters again BEFORE the content proper: what
    /// a registry remembers about a name must not leak into later families
    #[serde(default)]
    pub prelude: Vec<MetricSpec>,
    /// C16 only: families handed out by one custom collector registered next to the library metrics
    /// (summaries, explicit timestamps incl. an explicitly set zero, arbitrary strings and floats)
    #[serde(default)]
    pub custom: Vec<PFamily>,
    /// fault injection: before each replica gathers, the same thread scrapes ANOTHER registry that
    /// holds metrics with this plan's names (other kinds, other values) and a PullingGauge whose
    /// callback panics; the aborted scrape must leave nothing behind for the replica's own gather()
    #[serde(default)]
    pub poison: bool,
    /// the custom collector leaves the type of its counter families unset (the default type applies)
    #[serde(default)]
    pub custom_type_unset: bool,
    /// concurrent runs: the last `stable` children of every vector are left alone by the remover; they
    /// must appear exactly once in the gather that runs during the churn and at quiescence (crowded
    /// vectors: an implementation may walk many children in several steps)
    #[serde(default)]
    pub stable: usize,
    /// the custom collector fills a second value slot of another kind on every sample AFTER the one its
    /// family declares (hand-built samples may carry more than one value message)
    #[serde(default)]
    pub custom_extra_values: bool,
    /// fault injection: after the content is registered, a two-descriptor collector that repeats one
    /// registered descriptor (as another kind) is first unregistered (refused: it was never
    /// registered) and then registered (must be refused: equal descriptor); the refused calls must
    /// leave the registry as it was
    #[serde(default)]
    pub bundle_fault: bool,
    /// two more simulated threads register, at the same time and on a registry of their own, a counter
    /// and a two-descriptor collector that repeats the counter's descriptor as a gauge: at most one of
    /// the two may be admitted, and whatever gather() shows afterwards must be of one type
    #[serde(default)]
    pub race_register: bool,
    /// history fault: a twin of one registered metric (same name and help, another constant-label
    /// value) is registered and unregistered again, then a third collector under that name with a
    /// DIFFERENT help text is registered - it must be refused, the name's help was fixed by the others
    #[serde(default)]
    pub help_fault: bool,
}

const BOUNDS: [f64; 2] = [4.0, 64.0];

pub fn gen_plan(seed: u64, mixed_kinds: bool) -> GatherPlan {
    let mut r = Rng::new(seed, 1);
    // some names already begin with "<prefix>_" of the prefixes used below, one equals a prefix
    let names = ["req_total", "a_metric", "zeta", "mid:one", "b2", "pre_x", "ns_x_b2", "pre"];
    let n = 2 + r.below(5) as usize;
    let mut metrics: Vec<MetricSpec> = vec![];
    let plain_kinds = [MK::Counter, MK::IntCounter, MK::Gauge, MK::IntGauge, MK::Histogram, MK::Pulling];
    let vec_kinds = [MK::CounterVec, MK::IntGaugeVec, MK::HistogramVec];
    let mut tries = 0;
    while metrics.len() < n && tries < 100 {
        tries += 1;
        let name = r.pick(&names).to_string();
        // same name => same help, same label names, same kind (C07) or a different kind (C14)
        let same: Vec<MetricSpec> = metrics.iter().filter(|m| m.name == name).cloned().collect();
        let spec = if let Some(first) = same.first() {
            if first.kind == MK::Pulling || first.consts.is_empty() {
                continue; // cannot share a name without constant labels to tell the collectors apart
            }
            let kind = if mixed_kinds {
                let pool: Vec<MK> = if first.kind.is_vec() { vec_kinds.to_vec() } else { plain_kinds[..5].to_vec() };
                r.pick(&pool).clone()
            } else {
                first.kind.clone()
            };
            let consts: Vec<(String, String)> = first.consts.iter().map(|(k, _)| (k.clone(), r.pick(&["v0", "v1", "v2", "v3", "v", "v\t", "v\u{1f}0", ""]).to_string())).collect();
            if same.iter().any(|m| m.consts == consts) {
                continue;
            }
            MetricSpec { kind, name, help: first.help.clone(), consts, vars: first.vars.clone(), children: vec![], special: None }
        } else {
            let kind = if r.chance(45) { r.pick(&vec_kinds).clone() } else { r.pick(&plain_kinds).clone() };
            let consts = if kind == MK::Pulling {
                vec![]
            } else {
                match r.below(3) {
                    0 => vec![],
                    1 => vec![("k".to_string(), r.pick(&["v0", "v1", "v2", "v3", "v", "v\t", "v\u{1f}0", ""]).to_string())],
                    _ => vec![("k".to_string(), r.pick(&["v0", "v1", "v2", "v3", "v", "v\t", "v\u{1f}0", ""]).to_string()), ("a".to_string(), r.pick(&["x", "x\n", ""]).to_string())],
                }
            };
            let vars = if kind.is_vec() { if r.chance(50) { vec!["l".to_string()] } else { vec!["l".to_string(), "e".to_string()] } } else { vec![] };
            MetricSpec { kind, name, help: format!("help {}", r.below(3)), consts, vars, children: vec![], special: None }
        };
        let mut spec = spec;
        if spec.kind.is_vec() {
            let nc = if r.chance(5) { 9 + r.below(12) as usize } else { r.below(5) as usize };
            // prefix relations, control characters and separators-to-be: the order of samples must be
            // the lexicographic order of the value tuples, whatever bytes the values contain
            let pool = ["", "a", "b", "ab", "B", "é", "10", "9", "a\n", "a\t", "a\u{1f}", "a\u{1f}b", "\u{0}", "a\u{0}", "a b", "a,b", "a\u{ff}", "/api/v1/organizations/acme/projects/00001", "/api/v1/organizations/acme/projects/00002", "/api/v1/organizations/acme/projects/00003"];
            let mut seen = vec![];
            for _ in 0..nc {
                let vals: Vec<String> = spec.vars.iter().map(|_| r.pick(&pool).to_string()).collect();
                if !seen.contains(&vals) {
                    seen.push(vals.clone());
                    spec.children.push((vals, 1 + r.below(200) as u32));
                }
            }
        } else {
            spec.children.push((vec![], 1 + r.below(200) as u32));
        }
        metrics.push(spec);
    }
    // focused churn plans: one vector with a single child (plus at most one other collector), so that
    // "the last child is removed while a new one is created" meets its schedule often
    let focus = !mixed_kinds && r.chance(12);
    let mut stable = 0usize;
    if focus {
        let mut v: Vec<MetricSpec> = metrics.iter().filter(|m| m.kind.is_vec()).take(1).cloned().collect();
        if v.is_empty() {
            v.push(MetricSpec { kind: MK::CounterVec, name: "zeta".into(), help: "help 0".into(), consts: vec![], vars: vec!["l".into()], children: vec![], special: None });
        }
        v[0].children.truncate(1);
        if v[0].children.is_empty() {
            let vals = v[0].vars.iter().map(|_| "a".to_string()).collect();
            v[0].children.push((vals, 5));
        }
        if let Some(o) = metrics.iter().find(|m| !m.kind.is_vec() && m.name != v[0].name) {
            v.push(o.clone());
        }
        if r.chance(20) {
            stable = *r.pick(&[40usize, 130, 130, 260]);
            for i in 0..stable {
                let vals: Vec<String> = v[0].vars.iter().map(|_| format!("s{:03}", i)).collect();
                v[0].children.push((vals, 1));
            }
        }
        metrics = v;
    }
    let k = 4;
    let mut orders = vec![];
    let mut hash_seeds = vec![];
    for _ in 0..k {
        let mut o: Vec<usize> = (0..metrics.len()).collect();
        r.shuffle(&mut o);
        orders.push(o);
        hash_seeds.push(r.next());
    }
    let prefix = if r.chance(40) { Some(r.pick(&["pre", "ns_x"]).to_string()) } else { None };
    let ncommon = r.below(4) as usize;
    let common: Vec<(String, String)> = ["zone", "dc", "rack"][..ncommon.min(3)].iter().map(|s| (s.to_string(), format!("c{}", r.below(3)))).collect();
    let mut env = Env::swarm(&mut r, k, 200, false);
    env.max_steps += stable as u64 * 600;
    // history prelude: a collector of ANOTHER kind under one of the names (same help and label names),
    // registered and unregistered before the content
    let mut prelude = vec![];
    if mixed_kinds && r.chance(30) {
        let m = r.pick(&metrics).clone();
        if m.kind != MK::Pulling {
            let pool: Vec<MK> = if m.kind.is_vec() { vec_kinds.to_vec() } else { plain_kinds[..5].to_vec() };
            let other: Vec<MK> = pool.into_iter().filter(|k| k.ptype() != m.kind.ptype()).collect();
            let mut t = m.clone();
            t.kind = r.pick(&other).clone();
            if t.children.is_empty() && t.kind.is_vec() {
                t.children.push((t.vars.iter().map(|_| "p".to_string()).collect(), 7));
            }
            prelude.push(t);
        }
    }
    GatherPlan { env, prefix, common, metrics, orders, hash_seeds, concurrent_gather: focus || r.chance(30), prelude, custom: vec![], poison: r.chance(15), custom_type_unset: false, stable, custom_extra_values: false, bundle_fault: r.chance(15), race_register: r.chance(15), help_fault: r.chance(15) }
}

/// histogram children whose value is a multiple of 8 are created but never observed (an idle,
/// pre-created child must still be exposed as a histogram sample: seeded change C14-r18)
fn idle(v: u32) -> bool {
    v % 8 == 0
}
fn hist_model(v: u32) -> compat::PHist {
    if idle(v) {
        return compat::PHist { count: 0, sum: 0.0, buckets: BOUNDS.iter().map(|b| (*b, 0)).collect() };
    }
    // value v is observed once
    let x = v as f64;
    compat::PHist { count: 1, sum: x, buckets: BOUNDS.iter().map(|b| (*b, (x <= *b) as u64)).collect() }
}

fn metric_model(kind: &MK, labels: Vec<(String, String)>, v: u32) -> PMetric {
    let mut m = PMetric { labels, ..Default::default() };
    match kind.ptype() {
        PType::Counter => m.counter = Some(v as f64),
        PType::Gauge => m.gauge = Some(v as f64),
        PType::Histogram => m.hist = Some(hist_model(v)),
        _ => {}
    }
    m
}

/// What gather() must return (common labels appended last, compared as a set by the caller).
pub fn model_gather(plan: &GatherPlan) -> Vec<PFamily> {
    let mut by_name: BTreeMap<String, PFamily> = BTreeMap::new();
    for m in &plan.metrics {
        for (vals, v) in &m.children {
            let mut labels: Vec<(String, String)> = m.consts.clone();
            for (i, n) in m.vars.iter().enumerate() {
                labels.push((n.clone(), vals[i].clone()));
            }
            labels.sort_by(|a, b| a.0.cmp(&b.0));
            let f = by_name.entry(m.name.clone()).or_insert_with(|| PFamily { name: Some(m.name.clone()), help: Some(m.help.clone()), typ: m.kind.ptype(), metrics: vec![] });
            f.metrics.push(metric_model(&m.kind, labels, *v));
        }
    }
    let mut out = vec![];
    for (_, mut f) in by_name {
        f.metrics.sort_by(|a, b| {
            let va: Vec<&String> = a.labels.iter().map(|l| &l.1).collect();
            let vb: Vec<&String> = b.labels.iter().map(|l| &l.1).collect();
            va.cmp(&vb)
        });
        if let Some(p) = &plan.prefix {
            f.name = Some(format!("{}_{}", p, f.name.unwrap()));
        }
        out.push(f);
    }
    out
}

enum Built {
    C(Counter),
    IC(IntCounter),
    G(Gauge),
    IG(IntGauge),
    H(Histogram),
    P(PullingGauge),
    CV(CounterVec),
    IGV(IntGaugeVec),
    HV(HistogramVec),
}

fn build_metric(m: &MetricSpec) -> std::result::Result<Built, String> {
    let mut consts = HashMap::new();
    for (k, v) in &m.consts {
        consts.insert(k.clone(), v.clone());
    }
    let opts = Opts::new(m.name.clone(), m.help.clone()).const_labels(consts);
    let names: Vec<&str> = m.vars.iter().map(|s| s.as_str()).collect();
    let e = |e: Error| e.to_string();
    let hopts = || HistogramOpts::from(opts.clone()).buckets(BOUNDS.to_vec());
    let special: Option<f64> = m.special.as_ref().and_then(|s| compat::fbits::dec(s).ok());
    Ok(match m.kind {
        MK::Counter => {
            let c = Counter::with_opts(opts).map_err(e)?;
            c.inc_by(special.filter(|x| !(*x < 0.0)).unwrap_or(m.children[0].1 as f64));
            Built::C(c)
        }
        MK::IntCounter => {
            let c = IntCounter::with_opts(opts).map_err(e)?;
            c.inc_by(m.children[0].1 as u64);
            Built::IC(c)
        }
        MK::Gauge => {
            let c = Gauge::with_opts(opts).map_err(e)?;
            c.set(special.unwrap_or(m.children[0].1 as f64));
            Built::G(c)
        }
        MK::IntGauge => {
            let c = IntGauge::with_opts(opts).map_err(e)?;
            c.set(m.children[0].1 as i64);
            Built::IG(c)
        }
        MK::Histogram => {
            let c = Histogram::with_opts(hopts()).map_err(e)?;
            if !idle(m.children[0].1) {
                c.observe(m.children[0].1 as f64);
            }
            Built::H(c)
        }
        MK::Pulling => {
            let v = special.unwrap_or(m.children[0].1 as f64);
            Built::P(PullingGauge::new(m.name.clone(), m.help.clone(), Box::new(move || {
                crate::engine::yield_here();
                v
            })).map_err(e)?)
        }
        MK::CounterVec => {
            let c = CounterVec::new(opts, &names).map_err(e)?;
            for (vals, v) in &m.children {
                let vs: Vec<&str> = vals.iter().map(|s| s.as_str()).collect();
                c.get_metric_with_label_values(&vs).map_err(e)?.inc_by(*v as f64);
            }
            Built::CV(c)
        }
        MK::IntGaugeVec => {
            let c = IntGaugeVec::new(opts, &names).map_err(e)?;
            for (vals, v) in &m.children {
                let vs: Vec<&str> = vals.iter().map(|s| s.as_str()).collect();
                c.get_metric_with_label_values(&vs).map_err(e)?.set(*v as i64);
            }
            Built::IGV(c)
        }
        MK::HistogramVec => {
            let c = HistogramVec::new(hopts(), &names).map_err(e)?;
            for (vals, v) in &m.children {
                let vs: Vec<&str> = vals.iter().map(|s| s.as_str()).collect();
                let child = c.get_metric_with_label_values(&vs).map_err(e)?;
                if !idle(*v) {
                    child.observe(*v as f64);
                }
            }
            Built::HV(c)
        }
    })
}

fn register(reg: &Registry, b: &Built) -> std::result::Result<(), String> {
    let r = match b {
        Built::C(c) => reg.register(Box::new(c.clone())),
        Built::IC(c) => reg.register(Box::new(c.clone())),
        Built::G(c) => reg.register(Box::new(c.clone())),
        Built::IG(c) => reg.register(Box::new(c.clone())),
        Built::H(c) => reg.register(Box::new(c.clone())),
        Built::P(c) => reg.register(Box::new(c.clone())),
        Built::CV(c) => reg.register(Box::new(c.clone())),
        Built::IGV(c) => reg.register(Box::new(c.clone())),
        Built::HV(c) => reg.register(Box::new(c.clone())),
    };
    r.map_err(|e| e.to_string())
}

/// Collector that hands out pre-built families (one descriptor per family).
pub struct CustomCollector {
    descs: Vec<prometheus::core::Desc>,
    fams: Vec<PFamily>,
    type_unset: bool,
    pub extra_values: bool,
}
impl CustomCollector {
    pub fn new(fams: &[PFamily], type_unset: bool) -> std::result::Result<CustomCollector, String> {
        let mut descs = vec![];
        for f in fams {
            descs.push(prometheus::core::Desc::new(f.name.clone().unwrap_or_default(), "custom".into(), vec![], HashMap::new()).map_err(|e| e.to_string())?);
        }
        Ok(CustomCollector { descs, fams: fams.to_vec(), type_unset, extra_values: false })
    }
}
impl prometheus::core::Collector for CustomCollector {
    fn desc(&self) -> Vec<&prometheus::core::Desc> {
        self.descs.iter().collect()
    }
    fn collect(&self) -> Vec<proto::MetricFamily> {
        self.fams
            .iter()
            .map(|f| {
                let mut mf = compat::to_proto(f);
                if self.extra_values {
                    let mut ms = mf.get_metric().to_vec();
                    for m in ms.iter_mut() {
                        if f.typ == PType::Histogram {
                            // a hand-built histogram that never sets its sample count (the default, 0, applies)
                            let old = m.get_histogram().clone();
                            let mut h = proto::Histogram::default();
                            h.set_sample_sum(old.get_sample_sum());
                            h.set_bucket(old.get_bucket().to_vec());
                            m.set_histogram(h);
                        }
                        match f.typ {
                            PType::Counter | PType::Histogram => {
                                let mut g = proto::Gauge::default();
                                g.set_value(7.25);
                                m.set_gauge(g);
                            }
                            _ => {
                                let mut c = proto::Counter::default();
                                c.set_value(42.5);
                                m.set_counter(c);
                            }
                        }
                    }
                    mf.set_metric(ms);
                }
                if self.type_unset && f.typ == PType::Counter {
                    // as a collector written by hand may do: name, help and samples, no set_field_type
                    let mut bare = proto::MetricFamily::default();
                    bare.set_name(mf.name().to_string());
                    bare.set_help(mf.help().to_string());
                    bare.set_metric(mf.get_metric().to_vec());
                    bare
                } else {
                    mf
                }
            })
            .collect()
    }
}

/// Two metrics behind one collector (two descriptors).
#[derive(Clone)]
struct Bundle {
    /// a same-name sibling (another constant-label value) listed BEFORE the repeated descriptor
    sib_g: Option<IntGauge>,
    sib_c: Option<IntCounter>,
    g: Option<IntGauge>,
    c: Option<IntCounter>,
    aux: IntCounter,
}
impl prometheus::core::Collector for Bundle {
    fn desc(&self) -> Vec<&prometheus::core::Desc> {
        let mut d: Vec<&prometheus::core::Desc> = vec![];
        if let Some(g) = &self.sib_g {
            d.extend(g.desc());
        }
        if let Some(c) = &self.sib_c {
            d.extend(c.desc());
        }
        if let Some(g) = &self.g {
            d.extend(g.desc());
        }
        if let Some(c) = &self.c {
            d.extend(c.desc());
        }
        d.extend(self.aux.desc());
        d
    }
    fn collect(&self) -> Vec<proto::MetricFamily> {
        let mut f = vec![];
        if let Some(g) = &self.sib_g {
            f.extend(g.collect());
        }
        if let Some(c) = &self.sib_c {
            f.extend(c.collect());
        }
        if let Some(g) = &self.g {
            f.extend(g.collect());
        }
        if let Some(c) = &self.c {
            f.extend(c.collect());
        }
        f.extend(self.aux.collect());
        f
    }
}

fn unregister(reg: &Registry, b: &Built) -> std::result::Result<(), String> {
    let r = match b {
        Built::C(c) => reg.unregister(Box::new(c.clone())),
        Built::IC(c) => reg.unregister(Box::new(c.clone())),
        Built::G(c) => reg.unregister(Box::new(c.clone())),
        Built::IG(c) => reg.unregister(Box::new(c.clone())),
        Built::H(c) => reg.unregister(Box::new(c.clone())),
        Built::P(c) => reg.unregister(Box::new(c.clone())),
        Built::CV(c) => reg.unregister(Box::new(c.clone())),
        Built::IGV(c) => reg.unregister(Box::new(c.clone())),
        Built::HV(c) => reg.unregister(Box::new(c.clone())),
    };
    r.map_err(|e| e.to_string())
}

#[derive(Clone, Debug)]
pub struct Replica {
    pub fams: Vec<PFamily>,
    pub typed: String,
    pub text: String,
    pub concurrent: Option<Vec<PFamily>>,
    /// gather() of this replica's registry after every thread has finished (replica 0 of a
    /// concurrent run: its original vector children were removed while new ones were created)
    pub final_gather: Option<Vec<PFamily>>,
    pub errors: Vec<String>,
    /// replica 0 of a plan with `race_register`: (counter admitted, bundle admitted, gather() of the race registry at quiescence)
    pub race: Option<(bool, bool, Vec<PFamily>)>,
}

/// Materialise every replica on its own simulated thread (own hash seed, own registration order).
pub fn run_replicas(plan: &GatherPlan, mode: Mode) -> (crate::engine::RunResult, Vec<Option<Replica>>) {
    let sim = new_sim(&plan.env, mode);
    let outp: Arc<Mutex<Vec<Option<Replica>>>> = Arc::new(Mutex::new(vec![None; plan.orders.len()]));
    let keep = Keep::new();
    let reg0: Arc<Mutex<Option<Registry>>> = Arc::new(Mutex::new(None));
    let final0: Arc<Mutex<Option<Vec<PFamily>>>> = Arc::new(Mutex::new(None));
    let race_out: Arc<Mutex<Option<(bool, bool, Vec<PFamily>)>>> = Arc::new(Mutex::new(None));
    #[allow(clippy::type_complexity)]
    let mut race_parts: Option<(Registry, Arc<Mutex<(Option<bool>, Option<bool>)>>)> = None;
    if plan.race_register {
        let race_reg = Registry::new();
        let res: Arc<Mutex<(Option<bool>, Option<bool>)>> = Arc::new(Mutex::new((None, None)));
        let o = Opts::new("zz_race", "racing registrations").const_label("k", "v");
        let c = IntCounter::with_opts(o.clone()).unwrap();
        c.inc_by(5);
        let b = Bundle { sib_g: None, sib_c: None, g: IntGauge::with_opts(o).ok(), c: None, aux: IntCounter::new("zz_race_aux", "aux").unwrap() };
        if let Some(g) = &b.g {
            g.set(9);
        }
        {
            let (reg, res) = (race_reg.clone(), res.clone());
            sim.spawn("race_a", false, move |ctx| {
                ctx.invoke(op_id(30, 0));
                let ok = reg.register(Box::new(c)).is_ok();
                ctx.ret(op_id(30, 0));
                res.lock().unwrap().0 = Some(ok);
            });
        }
        {
            let (reg, res) = (race_reg.clone(), res.clone());
            sim.spawn("race_b", false, move |ctx| {
                ctx.invoke(op_id(31, 0));
                let ok = reg.register(Box::new(b)).is_ok();
                ctx.ret(op_id(31, 0));
                res.lock().unwrap().1 = Some(ok);
            });
        }
        race_parts = Some((race_reg, res));
    }
    if plan.concurrent_gather || plan.race_register {
        let reg0 = reg0.clone();
        let final0 = final0.clone();
        let race_out = race_out.clone();
        let keep2 = keep.clone();
        let want_final0 = plan.concurrent_gather;
        // (one final thread only: two threads waiting for quiescence would wait for each other)
        spawn_final(&sim, move |_| {
            if let Some((race_reg, res)) = race_parts {
                let r = *res.lock().unwrap();
                *race_out.lock().unwrap() = Some((r.0.unwrap_or(false), r.1.unwrap_or(false), compat::families_of(&race_reg.gather())));
                keep2.push(race_reg);
            }
            if !want_final0 {
                return;
            }
            let r = reg0.lock().unwrap().clone();
            if let Some(r) = r {
                *final0.lock().unwrap() = Some(compat::families_of(&r.gather()));
            }
        });
    }
    for (k, order) in plan.orders.iter().enumerate() {
        let plan = plan.clone();
        let order = order.clone();
        let outp = outp.clone();
        let keep = keep.clone();
        let reg0 = reg0.clone();
        let hs = plan.hash_seeds[k];
        sim.spawn(&format!("replica{}", k), false, move |ctx| {
            set_hash_seed(hs);
            ctx.invoke(op_id(k, 0));
            let mut errors = vec![];
            let mut labels = HashMap::new();
            for (a, b) in &plan.common {
                labels.insert(a.clone(), b.clone());
            }
            let reg = match Registry::new_custom(plan.prefix.clone(), if plan.common.is_empty() { None } else { Some(labels) }) {
                Ok(r) => r,
                Err(e) => {
                    errors.push(format!("new_custom: {}", e));
                    Registry::new()
                }
            };
            let mut built = vec![];
            let mut n_prelude_built = 0usize;
            for p in &plan.prelude {
                if let Ok(b) = build_metric(p) {
                    if register(&reg, &b).is_ok() {
                        let _ = reg.gather();
                        if let Err(e) = unregister(&reg, &b) {
                            errors.push(format!("unregister of prelude {}: {}", p.name, e));
                        }
                    }
                    built.push(b);
                    n_prelude_built += 1;
                }
            }
            for &i in &order {
                match build_metric(&plan.metrics[i]) {
                    Ok(b) => {
                        if let Err(e) = register(&reg, &b) {
                            errors.push(format!("register {}: {}", plan.metrics[i].name, e));
                        }
                        built.push(b);
                    }
                    Err(e) => errors.push(format!("build {}: {}", plan.metrics[i].name, e)),
                }
            }
            if !plan.custom.is_empty() {
                match CustomCollector::new(&plan.custom, plan.custom_type_unset) {
                    Ok(mut c) => {
                        c.extra_values = plan.custom_extra_values;
                        if let Err(e) = reg.register(Box::new(c)) {
                            errors.push(format!("register custom collector: {}", e));
                        }
                    }
                    Err(e) => errors.push(format!("custom collector: {}", e)),
                }
            }
            if plan.bundle_fault {
                if let Some(m0) = plan.metrics.iter().find(|m| !m.kind.is_vec() && m.kind != MK::Pulling && m.kind != MK::Histogram) {
                    let mut consts = HashMap::new();
                    for (k, v) in &m0.consts {
                        consts.insert(k.clone(), v.clone());
                    }
                    let o = Opts::new(m0.name.clone(), m0.help.clone()).const_labels(consts);
                    let is_counter = m0.kind.ptype() == PType::Counter;
                    // in half of the cases a sibling under the same name comes first in the descriptor list
                    let sib_opts = if !m0.consts.is_empty() && plan.hash_seeds[0] % 2 == 0 {
                        let mut c2 = HashMap::new();
                        for (i, (k, v)) in m0.consts.iter().enumerate() {
                            c2.insert(k.clone(), if i == 0 { "zz_sib".to_string() } else { v.clone() });
                        }
                        Some(Opts::new(m0.name.clone(), m0.help.clone()).const_labels(c2))
                    } else {
                        None
                    };
                    let b = Bundle {
                        sib_g: if is_counter { sib_opts.clone().and_then(|o| IntGauge::with_opts(o).ok()) } else { None },
                        sib_c: if is_counter { None } else { sib_opts.clone().and_then(|o| IntCounter::with_opts(o).ok()) },
                        g: if is_counter { IntGauge::with_opts(o.clone()).ok() } else { None },
                        c: if is_counter { None } else { IntCounter::with_opts(o.clone()).ok() },
                        aux: IntCounter::new("zz_aux", "aux").unwrap(),
                    };
                    if let Some(g) = &b.g {
                        g.set(7_700_123);
                    }
                    if let Some(c) = &b.c {
                        c.inc_by(7_700_123);
                    }
                    if reg.unregister(Box::new(b.clone())).is_ok() {
                        errors.push(format!("unregister of a never-registered two-descriptor collector repeating {:?} succeeded", m0.name));
                    }
                    if reg.register(Box::new(b.clone())).is_ok() {
                        errors.push(format!("a two-descriptor collector repeating the registered descriptor of {:?} was admitted after its refused unregister", m0.name));
                    }
                }
            }
            if plan.help_fault {
                if let Some(m0) = plan.metrics.iter().find(|m| !m.kind.is_vec() && m.kind != MK::Pulling && m.kind != MK::Histogram && !m.consts.is_empty()) {
                    let with_value = |v: &str, help: &str| {
                        let mut consts = HashMap::new();
                        for (i, (k, val)) in m0.consts.iter().enumerate() {
                            consts.insert(k.clone(), if i == 0 { v.to_string() } else { val.clone() });
                        }
                        Opts::new(m0.name.clone(), help.to_string()).const_labels(consts)
                    };
                    if let Ok(twin) = IntGauge::with_opts(with_value("zz_twin", &m0.help)) {
                        // (a twin of another kind would be the recorded C14 finding; keep the kind family)
                        let is_counter = m0.kind.ptype() == PType::Counter;
                        let twin_c = IntCounter::with_opts(with_value("zz_twin", &m0.help)).ok();
                        let reg_twin = |r: &Registry| if is_counter { twin_c.clone().map(|c| r.register(Box::new(c))) } else { Some(r.register(Box::new(twin.clone()))) };
                        let unreg_twin = |r: &Registry| if is_counter { twin_c.clone().map(|c| r.unregister(Box::new(c))) } else { Some(r.unregister(Box::new(twin.clone()))) };
                        if let Some(Ok(())) = reg_twin(&reg) {
                            let _ = unreg_twin(&reg);
                            // the third collector is of the same kind in one half of the plans and of the
                            // other kind in the other half (another help text is refused either way)
                            let third_counter = if plan.hash_seeds[0] % 2 == 0 { is_counter } else { !is_counter };
                            let admitted = if third_counter {
                                IntCounter::with_opts(with_value("zz_third", "another help text")).map(|c| { c.inc_by(7_700_321); reg.register(Box::new(c)).is_ok() }).unwrap_or(false)
                            } else {
                                IntGauge::with_opts(with_value("zz_third", "another help text")).map(|g| { g.set(7_700_321); reg.register(Box::new(g)).is_ok() }).unwrap_or(false)
                            };
                            if admitted {
                                errors.push(format!("a collector with another help text was admitted under the name {:?} after a twin had been unregistered", m0.name));
                            }
                        }
                    }
                }
            }
            if plan.poison {
                let other = Registry::new();
                for (j, m) in plan.metrics.iter().take(3).enumerate() {
                    // same raw name, a kind the plan does not use for it, a value nobody else has
                    if matches!(m.kind, MK::Gauge | MK::IntGauge | MK::Pulling | MK::IntGaugeVec) {
                        if let Ok(c) = IntCounter::with_opts(Opts::new(m.name.clone(), "stale")) {
                            c.inc_by(7_700_000 + j as u64);
                            let _ = other.register(Box::new(c));
                        }
                    } else if let Ok(g) = IntGauge::with_opts(Opts::new(m.name.clone(), "stale")) {
                        g.set(7_700_000 + j as i64);
                        let _ = other.register(Box::new(g));
                    }
                }
                if let Ok(g) = IntGauge::new("zz_stale", "stale") {
                    g.set(7_799_999);
                    let _ = other.register(Box::new(g));
                }
                if let Ok(p) = PullingGauge::new("zz_poison", "panics", Box::new(|| panic!("injected: user callback fails during a scrape"))) {
                    let _ = other.register(Box::new(p));
                }
                if crate::seams::catch(|| other.gather()).is_ok() {
                    errors.push("the poisoned scrape did not panic".to_string());
                }
                keep.push(other);
            }
            let mfs = reg.gather();
            let fams = compat::families_of(&mfs);
            let typed = compat::typed_dump(&mfs);
            let text = crate::seams::catch(|| TextEncoder::new().encode_to_string(&mfs).unwrap_or_else(|e| format!("<encode error: {}>", e))).unwrap_or_else(|p| format!("<encode panic: {}>", p));
            // after the replica's own dump: gather once more while another simulated thread creates and
            // updates new children of the replica's vectors (structure of the result is checked)
            let concurrent = if plan.concurrent_gather && k == 0 {
                let mut vecs: Vec<Built> = vec![];
                // only the content proper (objects of the prelude are not registered any more)
                for b in &built[n_prelude_built..] {
                    match b {
                        Built::CV(v) => vecs.push(Built::CV(v.clone())),
                        Built::IGV(v) => vecs.push(Built::IGV(v.clone())),
                        Built::HV(v) => vecs.push(Built::HV(v.clone())),
                        _ => {}
                    }
                }
                let nvars: Vec<usize> = order.iter().filter(|&&i| plan.metrics[i].kind.is_vec()).map(|&i| plan.metrics[i].vars.len()).collect();
                *reg0.lock().unwrap() = Some(reg.clone());
                // a second thread removes every ORIGINAL child of every vector meanwhile
                let originals: Vec<Vec<Vec<String>>> = order.iter().filter(|&&i| plan.metrics[i].kind.is_vec()).map(|&i| { let ch = &plan.metrics[i].children; ch[..ch.len().saturating_sub(plan.stable)].iter().map(|c| c.0.clone()).collect() }).collect();
                let mut vecs2: Vec<Built> = vec![];
                for b in &vecs {
                    match b {
                        Built::CV(v) => vecs2.push(Built::CV(v.clone())),
                        Built::IGV(v) => vecs2.push(Built::IGV(v.clone())),
                        Built::HV(v) => vecs2.push(Built::HV(v.clone())),
                        _ => {}
                    }
                }
                ctx.spawn("remover", move |_c| {
                    for (j, b) in vecs2.iter().enumerate() {
                        for vals in &originals[j] {
                            let vs: Vec<&str> = vals.iter().map(|s| s.as_str()).collect();
                            let _ = match b {
                                Built::CV(v) => v.remove_label_values(&vs),
                                Built::IGV(v) => v.remove_label_values(&vs),
                                Built::HV(v) => v.remove_label_values(&vs),
                                _ => Ok(()),
                            };
                        }
                    }
                });
                ctx.spawn("mutator", move |_c| {
                    for (j, b) in vecs.iter().enumerate() {
                        for extra in ["zz_new1", "zz_new3", "zz_new2"] {
                            let vals: Vec<&str> = (0..nvars.get(j).copied().unwrap_or(1)).map(|_| extra).collect();
                            match b {
                                Built::CV(v) => {
                                    if let Ok(c) = v.get_metric_with_label_values(&vals) {
                                        c.inc()
                                    }
                                }
                                Built::IGV(v) => {
                                    if let Ok(c) = v.get_metric_with_label_values(&vals) {
                                        c.inc()
                                    }
                                }
                                Built::HV(v) => {
                                    if let Ok(c) = v.get_metric_with_label_values(&vals) {
                                        c.observe(1.0)
                                    }
                                }
                                _ => {}
                            }
                        }
                    }
                });
                Some(compat::families_of(&reg.gather()))
            } else {
                None
            };
            ctx.ret(op_id(k, 0));
            outp.lock().unwrap()[k] = Some(Replica { fams, typed, text, concurrent, final_gather: None, errors, race: None });
            keep.push(built);
            keep.push(reg);
        });
    }
    let res = sim.run();
    drop(keep);
    let mut o = outp.lock().unwrap().clone();
    if let Some(Some(r0)) = o.get_mut(0) {
        r0.final_gather = final0.lock().unwrap().clone();
        r0.race = race_out.lock().unwrap().clone();
    }
    (res, o)
}

fn canon(fams: &[PFamily]) -> String {
    format!("{:?}", fams)
}

fn strip_common(plan: &GatherPlan, f: &PFamily) -> std::result::Result<PFamily, String> {
    let mut f = f.clone();
    for m in f.metrics.iter_mut() {
        for (k, v) in &plan.common {
            match m.labels.iter().position(|(a, b)| a == k && b == v) {
                Some(p) => {
                    m.labels.remove(p);
                }
                None => return Err(format!("common label {}={:?} missing on a sample of {:?}", k, v, f.name)),
            }
        }
    }
    Ok(f)
}

fn execute_c07(plan: &GatherPlan, mode: Mode) -> RunOut {
    let (res, reps) = run_replicas(plan, mode);
    let mut out = base_out(&plan.env, &res);
    out.nontrivial = plan.metrics.len() >= 2;
    for (t, p) in &res.panics {
        out.violations.push(Violation::new("C07/panic", "C07/panic", format!("thread {} panicked: {}", t, p)));
    }
    if res.outcome == Outcome::Stuck {
        out.violations.push(Violation::new("C07/stuck", "C07/stuck", "no thread can make progress".to_string()));
        return out;
    }
    if !is_finished(&res) {
        return out;
    }
    let want = model_gather(plan);
    let reps: Vec<Replica> = reps.into_iter().flatten().collect();
    for (k, rep) in reps.iter().enumerate() {
        for e in &rep.errors {
            out.violations.push(Violation::new("C07/setup", "C07/setup", format!("replica {}: a valid, conflict-free collector was refused: {}", k, e)));
        }
        // structure: strictly increasing names, non-empty families
        for w in rep.fams.windows(2) {
            if w[0].name >= w[1].name {
                out.violations.push(Violation::new("C07/order", "C07/order", format!("replica {}: family names not strictly increasing: {:?} then {:?}", k, w[0].name, w[1].name)));
            }
        }
        let mut stripped = vec![];
        let mut ok = true;
        for f in &rep.fams {
            match strip_common(plan, f) {
                Ok(s) => stripped.push(s),
                Err(e) => {
                    ok = false;
                    out.violations.push(Violation::new("C07/complete", "C07/common-labels", format!("replica {}: {}", k, e)));
                }
            }
        }
        if ok && stripped != want {
            // find the first difference
            let mut msg = format!("{} families, expected {}", stripped.len(), want.len());
            for (a, b) in stripped.iter().zip(want.iter()) {
                if a != b {
                    msg = if a.name != b.name || a.help != b.help || a.typ != b.typ {
                        format!("family header {:?}/{:?}/{:?}, expected {:?}/{:?}/{:?}", a.name, a.help, a.typ, b.name, b.help, b.typ)
                    } else {
                        let la: Vec<_> = a.metrics.iter().map(|m| &m.labels).collect();
                        let lb: Vec<_> = b.metrics.iter().map(|m| &m.labels).collect();
                        if la != lb {
                            format!("family {:?}: samples (by label pairs) {:?}, expected {:?} (every sample once, ordered lexicographically by label values)", a.name, la, lb)
                        } else {
                            format!("family {:?}: sample values differ: {:?} vs expected {:?}", a.name, a.metrics, b.metrics)
                        }
                    };
                    break;
                }
            }
            out.violations.push(Violation::new("C07/complete", "C07/complete", format!("replica {} (registration order {:?}): gather() differs from the model: {}", k, plan.orders[k], msg)));
        }
        if let Some(c) = &rep.concurrent {
            // gathered while children were being created: structure only
            for w in c.windows(2) {
                if w[0].name >= w[1].name {
                    out.violations.push(Violation::new("C07/order", "C07/order", format!("replica {} (concurrent gather): family names not strictly increasing: {:?} then {:?}", k, w[0].name, w[1].name)));
                }
            }
            for f in c {
                let f = match strip_common(plan, f) {
                    Ok(f) => f,
                    Err(e) => {
                        out.violations.push(Violation::new("C07/complete", "C07/common-labels", format!("replica {} (concurrent gather): {}", k, e)));
                        continue;
                    }
                };
                let keys: Vec<Vec<&String>> = f.metrics.iter().map(|m| m.labels.iter().map(|l| &l.1).collect()).collect();
                for w in keys.windows(2) {
                    if w[0] >= w[1] {
                        out.violations.push(Violation::new("C07/order", "C07/sample-order", format!("replica {} (concurrent gather): samples of {:?} are not strictly ordered by label values: {:?} then {:?}", k, f.name, w[0], w[1])));
                    }
                }
            }
            // children nobody touches are there exactly once
            if plan.stable > 0 {
                for m in plan.metrics.iter().filter(|m| m.kind.is_vec()) {
                    let name = match &plan.prefix {
                        Some(p) => format!("{}_{}", p, m.name),
                        None => m.name.clone(),
                    };
                    let fam: Vec<PFamily> = c.iter().filter(|f| f.name.as_deref() == Some(name.as_str())).filter_map(|f| strip_common(plan, f).ok()).collect();
                    for (vals, _) in &m.children[m.children.len().saturating_sub(plan.stable)..] {
                        let n = fam.iter().flat_map(|f| f.metrics.iter()).filter(|x| m.consts.iter().all(|c| x.labels.contains(c)) && m.vars.iter().zip(vals.iter()).all(|(k, v)| x.labels.iter().any(|(a, b)| a == k && b == v))).count();
                        if n != 1 {
                            out.violations.push(Violation::new("C07/complete", "C07/complete-during-churn", format!("replica {} (concurrent gather): child {:?} of {:?}, which nobody removes, appears {} times", k, vals, name, n)));
                            break;
                        }
                    }
                }
            }
            // samples of collectors that nobody touches (non-vector metrics) are still there, unchanged
            for m in plan.metrics.iter().filter(|m| !m.kind.is_vec()) {
                let name = match &plan.prefix {
                    Some(p) => format!("{}_{}", p, m.name),
                    None => m.name.clone(),
                };
                let wm = want.iter().filter(|w| w.name.as_deref() == Some(name.as_str())).flat_map(|w| w.metrics.iter()).find(|wm| m.consts.iter().all(|c| wm.labels.contains(c)));
                let found = c.iter().filter(|f| f.name.as_deref() == Some(name.as_str())).filter_map(|f| strip_common(plan, f).ok()).any(|f| wm.map(|wm| f.metrics.iter().any(|x| x == wm)).unwrap_or(true));
                if !found {
                    out.violations.push(Violation::new("C07/complete", "C07/complete", format!("replica {} (concurrent gather): the sample of untouched collector {:?}{:?} is missing or changed", k, name, m.consts)));
                }
            }
        }
    }
    // replica 0 of a concurrent run, at quiescence: every original vector child was removed while
    // three new ones were created; the registry must expose exactly the new ones
    if let Some(Some(fin)) = reps.first().map(|r| r.final_gather.clone()) {
        let mut p2 = plan.clone();
        for m in p2.metrics.iter_mut() {
            if m.kind.is_vec() {
                let keep_from = m.children.len().saturating_sub(plan.stable);
                let stable_children: Vec<(Vec<String>, u32)> = m.children[keep_from..].to_vec();
                m.children = ["zz_new1", "zz_new3", "zz_new2"].iter().map(|x| (m.vars.iter().map(|_| x.to_string()).collect(), 1u32)).collect();
                m.children.extend(stable_children);
            }
        }
        let want2 = model_gather(&p2);
        let mut stripped = vec![];
        let mut ok = true;
        for f in &fin {
            match strip_common(plan, f) {
                Ok(s) => stripped.push(s),
                Err(_) => ok = false,
            }
        }
        if ok && stripped != want2 {
            let mut msg = format!("{} families, expected {}", stripped.len(), want2.len());
            for (a, b) in stripped.iter().zip(want2.iter()) {
                if a != b {
                    msg = format!("family {:?} holds samples {:?}, expected {:?}", a.name, a.metrics.iter().map(|m| &m.labels).collect::<Vec<_>>(), b.metrics.iter().map(|m| &m.labels).collect::<Vec<_>>());
                    break;
                }
            }
            if stripped.len() < want2.len() {
                let missing: Vec<_> = want2.iter().filter(|w| !stripped.iter().any(|s| s.name == w.name)).map(|w| w.name.clone()).collect();
                msg = format!("families {:?} are missing although their collectors hold samples", missing);
            }
            out.violations.push(Violation::new("C07/complete", "C07/complete-after-churn", format!("replica 0, after its vectors' original children were removed while new ones were created concurrently: gather() at quiescence differs from the model: {}", msg)));
        }
        out.probes.push(("quiescent_gather_after_churn", 1));
    }
    // determinism across hash seeds / registration orders
    if let Some(first) = reps.first() {
        for (k, rep) in reps.iter().enumerate().skip(1) {
            if canon(&rep.fams) != canon(&first.fams) {
                // is it only the order of labels inside a sample?
                let norm = |fs: &Vec<PFamily>| {
                    let mut fs = fs.clone();
                    for f in fs.iter_mut() {
                        for m in f.metrics.iter_mut() {
                            m.labels.sort();
                        }
                    }
                    canon(&fs)
                };
                let key = if norm(&rep.fams) == norm(&first.fams) { "C07/deterministic:label-order" } else { "C07/deterministic" };
                let ex = rep.fams.iter().zip(first.fams.iter()).flat_map(|(a, b)| a.metrics.iter().zip(b.metrics.iter())).find(|(a, b)| a != b).map(|(a, b)| format!("{:?} vs {:?}", a.labels, b.labels)).unwrap_or_default();
                out.violations.push(Violation::new("C07/deterministic", key, format!("replica {} (hash seed {}, order {:?}) gathers differently from replica 0 (hash seed {}, order {:?}): e.g. {}", k, plan.hash_seeds[k], plan.orders[k], plan.hash_seeds[0], plan.orders[0], ex)));
                break;
            }
        }
    }
    let mut fp = crate::rng::Fp::default();
    fp.str(&serde_json::to_string(&(&plan.metrics, &plan.prefix, &plan.common, &plan.orders)).unwrap());
    out.signature = fp.0;
    out.probes.push(("same_name_collectors", plan.metrics.iter().enumerate().any(|(i, m)| plan.metrics[..i].iter().any(|o| o.name == m.name)) as u64));
    out.probes.push(("common_labels_2plus", (plan.common.len() >= 2) as u64));
    out.probes.push(("prefixed", plan.prefix.is_some() as u64));
    out.faults.push(("hash_seed_replicas", reps.len() as u64));
    out
}

pub fn shrink_gather(plan: &Value) -> Vec<Value> {
    let p: GatherPlan = serde_json::from_value(plan.clone()).unwrap();
    let mut c = vec![];
    for i in 0..p.metrics.len() {
        if p.metrics.len() > 1 {
            let mut n = p.clone();
            n.metrics.remove(i);
            for o in n.orders.iter_mut() {
                o.retain(|&x| x != i);
                for x in o.iter_mut() {
                    if *x > i {
                        *x -= 1;
                    }
                }
            }
            c.push(n);
        }
    }
    if p.orders.len() > 2 {
        for k in 1..p.orders.len() {
            let mut n = p.clone();
            n.orders.remove(k);
            n.hash_seeds.remove(k);
            c.push(n);
        }
    }
    for i in 0..p.metrics.len() {
        for j in 0..p.metrics[i].children.len() {
            if p.metrics[i].children.len() > 1 {
                let mut n = p.clone();
                n.metrics[i].children.remove(j);
                c.push(n);
            }
        }
    }
    if p.prefix.is_some() {
        let mut n = p.clone();
        n.prefix = None;
        c.push(n);
    }
    for i in 0..p.common.len() {
        let mut n = p.clone();
        n.common.remove(i);
        c.push(n);
    }
    if p.concurrent_gather {
        let mut n = p.clone();
        n.concurrent_gather = false;
        c.push(n);
    }
    if !p.prelude.is_empty() {
        let mut n = p.clone();
        n.prelude.clear();
        c.push(n);
    }
    c.into_iter().map(|p| serde_json::to_value(p).unwrap()).collect()
}

pub struct C07;
impl Scenario for C07 {
    fn id(&self) -> &'static str {
        "C07"
    }
    fn name(&self) -> &'static str {
        "gather-replicas"
    }
    fn runs(&self, tier: Tier) -> u64 {
        match tier {
            Tier::Quick => 60_000,
            Tier::Thorough => 1_500_000,
        }
    }
    fn gen(&self, seed: u64, _tier: Tier) -> Value {
        serde_json::to_value(gen_plan(seed, false)).unwrap()
    }
    fn run(&self, plan: &Value, mode: Mode) -> RunOut {
        let plan: GatherPlan = serde_json::from_value(plan.clone()).expect("C07 plan");
        let hs = plan.env.hash_seed;
        isolated(hs, move || execute_c07(&plan, mode))
    }
    fn shrink(&self, plan: &Value) -> Vec<Value> {
        shrink_gather(plan)
    }
    fn info(&self) -> Info {
        Info {
            rule: "one run = one logical registry content (2-6 collectors among counters, gauges, histograms, pulling gauges and vectors with 0-4 children, some sharing a name with distinct constant-label values; optional prefix; 0-3 common labels) materialised 4 times on fresh simulated threads, each with its own hash seed (getrandom seam) and registration order; every replica's gather() is compared with a reference model and all replicas with each other; non-trivial = content with >=2 collectors; distinct = distinct (content, prefix, common labels, orders)",
            assumptions: vec!["the position of the registry's common labels inside a sample is not prescribed by the statement; it is constrained only by replica equality", "hash seeds are controlled through std's weak getrandom symbol (self-tested)"],
            real: vec!["prometheus::Registry and all metric types (all code)", "TextEncoder for the dump"],
            stubbed: vec!["OS randomness (hash seeds)", "thread scheduling", "PullingGauge closure (scripted, yields to the scheduler)"],
            expected_probes: vec!["same_name_collectors", "common_labels_2plus", "prefixed"],
        }
    }
}

// =============================================================================== C14
fn execute_c14(plan: &GatherPlan, mode: Mode) -> RunOut {
    let (res, reps) = run_replicas(plan, mode);
    let mut out = base_out(&plan.env, &res);
    out.nontrivial = plan.metrics.len() >= 2;
    for (t, p) in &res.panics {
        out.violations.push(Violation::new("C14/panic", "C14/panic", format!("thread {} panicked: {}", t, p)));
    }
    if !is_finished(&res) {
        return out;
    }
    let reps: Vec<Replica> = reps.into_iter().flatten().collect();
    // which kinds share a name in this plan
    let mut kinds_by_name: BTreeMap<String, Vec<PType>> = BTreeMap::new();
    for m in &plan.metrics {
        if !m.children.is_empty() {
            let e = kinds_by_name.entry(m.name.clone()).or_default();
            if !e.contains(&m.kind.ptype()) {
                e.push(m.kind.ptype());
            }
        }
    }
    for v in kinds_by_name.values_mut() {
        v.sort();
    }
    // kinds registered under a name as the PLAN spells it
    let shape_plan = |n: &str| -> String { kinds_by_name.get(n).map(|v| v.iter().map(|t| format!("{:?}", t).to_lowercase()).collect::<Vec<_>>().join("+")).unwrap_or_default() };
    // ... and under a name as gather() spells it (exactly one "<prefix>_" in front)
    let shape = |name: &str| -> String {
        let n = plan.prefix.as_ref().map(|p| name.strip_prefix(&format!("{}_", p)).unwrap_or(name)).unwrap_or(name);
        shape_plan(n)
    };
    for (k, rep) in reps.iter().enumerate() {
        for f in &rep.fams {
            let name = f.name.clone().unwrap_or_default();
            for m in &f.metrics {
                let payloads: Vec<PType> = [(m.counter.is_some(), PType::Counter), (m.gauge.is_some(), PType::Gauge), (m.hist.is_some(), PType::Histogram), (m.summary.is_some(), PType::Summary), (m.untyped.is_some(), PType::Untyped)].iter().filter(|x| x.0).map(|x| x.1).collect();
                if compat::HAS_PRESENCE && payloads != vec![f.typ] {
                    out.violations.push(Violation::new("C14/mixed-type", format!("C14/mixed-type:{}", shape(&name)), format!("replica {}: family {:?} is declared {:?} but the sample {:?} carries a value of type {:?} (collectors under this name: {})", k, name, f.typ, m.labels, payloads, shape(&name))));
                }
            }
        }
    }
    if let Some((a_ok, b_ok, fams)) = reps.first().and_then(|r| r.race.clone()) {
        for f in &fams {
            for m in &f.metrics {
                let payloads: Vec<PType> = [(m.counter.is_some(), PType::Counter), (m.gauge.is_some(), PType::Gauge)].iter().filter(|x| x.0).map(|x| x.1).collect();
                if compat::HAS_PRESENCE && payloads != vec![f.typ] {
                    out.violations.push(Violation::new("C14/mixed-type", "C14/mixed-type:after-racing-registrations", format!("two threads registered a counter and a collector repeating its descriptor as a gauge at the same time (admitted: {} / {}); family {:?} is declared {:?} but the sample {:?} carries {:?}", a_ok, b_ok, f.name, f.typ, m.labels, payloads)));
                }
            }
        }
        out.probes.push(("racing_registrations", 1));
    }
    if let Some(first) = reps.first() {
        for (k, rep) in reps.iter().enumerate().skip(1) {
            for f in &rep.fams {
                if let Some(g) = first.fams.iter().find(|g| g.name == f.name) {
                    if g.typ != f.typ {
                        let name = f.name.clone().unwrap_or_default();
                        out.violations.push(Violation::new("C14/type-depends-on-order", format!("C14/type-depends-on-order:{}", shape(&name)), format!("family {:?} is gathered as {:?} in replica 0 (order {:?}, hash seed {}) and as {:?} in replica {} (order {:?}, hash seed {})", name, g.typ, plan.orders[0], plan.hash_seeds[0], f.typ, k, plan.orders[k], plan.hash_seeds[k])));
                    }
                }
            }
        }
    }
    // the text encoder must print each sample's real value: read the exposition back with the
    // independent parser and look every collector's sample up by name, labels and value
    for (k, rep) in reps.iter().enumerate() {
        if rep.text.starts_with("<encode") {
            continue;
        }
        let parsed = match crate::textparse::parse(&rep.text) {
            Ok((f, _)) => f,
            Err(_) => continue, // unparseable mixed families are covered by the payload clause
        };
        for m in &plan.metrics {
            if m.kind.ptype() == PType::Histogram {
                continue;
            }
            for (vals, v) in &m.children {
                let name = match &plan.prefix {
                    Some(p) => format!("{}_{}", p, m.name),
                    None => m.name.clone(),
                };
                let mut labels: Vec<(String, String)> = m.consts.clone();
                for (i, n) in m.vars.iter().enumerate() {
                    labels.push((n.clone(), vals[i].clone()));
                }
                let found = parsed.iter().filter(|f| f.name.as_deref() == Some(name.as_str())).any(|f| {
                    f.metrics.iter().any(|pm| labels.iter().all(|l| pm.labels.contains(l)) && pm.counter.or(pm.gauge).or(pm.untyped).or(pm.hist.as_ref().map(|h| h.sum)) == Some(*v as f64))
                });
                if !found {
                    let name_s = m.name.clone();
                    out.violations.push(Violation::new("C14/printed-value", format!("C14/printed-value:{}", shape_plan(&name_s)), format!("replica {}: the text exposition has no sample {}{:?} with the collector's value {} (collectors under this name: {})", k, name, labels, v, shape_plan(&name_s))));
                }
            }
        }
    }
    let mut fp = crate::rng::Fp::default();
    fp.str(&serde_json::to_string(&(&plan.metrics, &plan.prefix, &plan.common, &plan.orders)).unwrap());
    out.signature = fp.0;
    let mixed = kinds_by_name.values().any(|v| v.len() > 1);
    out.probes.push(("same_name_two_kinds", mixed as u64));
    out.faults.push(("hash_seed_replicas", reps.len() as u64));
    out
}

pub struct C14;
impl Scenario for C14 {
    fn id(&self) -> &'static str {
        "C14"
    }
    fn name(&self) -> &'static str {
        "gather-types"
    }
    fn runs(&self, tier: Tier) -> u64 {
        match tier {
            Tier::Quick => 40_000,
            Tier::Thorough => 1_000_000,
        }
    }
    fn gen(&self, seed: u64, _tier: Tier) -> Value {
        serde_json::to_value(gen_plan(seed, true)).unwrap()
    }
    fn run(&self, plan: &Value, mode: Mode) -> RunOut {
        let plan: GatherPlan = serde_json::from_value(plan.clone()).expect("C14 plan");
        let hs = plan.env.hash_seed;
        isolated(hs, move || execute_c14(&plan, mode))
    }
    fn shrink(&self, plan: &Value) -> Vec<Value> {
        shrink_gather(plan)
    }
    fn info(&self) -> Info {
        Info {
            rule: "one run = one registry content in which collectors of different kinds may share a metric name and help text but differ in constant-label values, materialised 4 times under different hash seeds and registration orders; oracle: every sample carries exactly the payload of its family's declared type, the text exposition prints every collector's real value, and the declared type is the same in all replicas; non-trivial = content with >=2 collectors; distinct = distinct contents",
            assumptions: vec!["payload presence is observable only in the protobuf-backed data model (default build), which is the one checked"],
            real: vec!["prometheus::Registry, all metric types, TextEncoder"],
            stubbed: vec!["OS randomness (hash seeds)", "thread scheduling"],
            expected_probes: vec!["same_name_two_kinds"],
        }
    }
}
