//! C10: concurrent use of a metric vector, linearizability against a map model with observed
//! child identity.
use crate::common::*;
use crate::compat;
use crate::driver::{Info, RunOut, Scenario, Tier, Violation};
use crate::engine::{Env, Ev, Mode, Outcome, Stall};
use crate::lin::{linearize, HOp, Spec};
use crate::rng::Rng;
use crate::scen::value::{shrink_env, shrink_threads};
use prometheus::core::Collector;
use prometheus::verif::OpKind;
use prometheus::*;
use serde::{Deserialize, Serialize};
use serde_json::Value;
use std::collections::{BTreeMap, BTreeSet, HashMap};
use std::sync::{Arc, Mutex};

#[derive(Serialize, Deserialize, Clone, Debug, PartialEq)]
pub enum VOp {
    /// get-or-create the child for tuple (values form or map form), then inc_by(2^bit) through it
    GetInc { tuple: usize, map: bool, bit: u8 },
    /// inc_by(2^bit) through the handle obtained by this thread's op number `of`
    IncAgain { of: usize, bit: u8 },
    Remove { tuple: usize, map: bool },
    Reset,
    Collect,
}
#[derive(Serialize, Deserialize, Clone, Debug, PartialEq)]
pub enum VKind {
    IntCounter,
    IntGauge,
}
#[derive(Serialize, Deserialize, Clone, Debug)]
pub struct VecPlan {
    pub env: Env,
    pub kind: VKind,
    pub labels: Vec<String>,
    pub tuples: Vec<Vec<String>>,
    pub threads: Vec<Vec<VOp>>,
}

#[derive(Clone)]
enum AnyVec {
    C(IntCounterVec),
    G(IntGaugeVec),
}
#[derive(Clone)]
enum AnyHandle {
    C(IntCounter),
    G(IntGauge),
}
impl AnyHandle {
    fn add(&self, v: u64) {
        match self {
            AnyHandle::C(c) => c.inc_by(v),
            AnyHandle::G(g) => g.add(v as i64),
        }
    }
    fn get(&self) -> u64 {
        match self {
            AnyHandle::C(c) => c.get(),
            AnyHandle::G(g) => g.get() as u64,
        }
    }
}
impl AnyVec {
    fn get(&self, labels: &[String], vals: &[String], map: bool, order_seed: u64) -> std::result::Result<AnyHandle, String> {
        if map {
            // keys inserted in a seed-dependent order into a HashMap with this thread's hash seed
            let mut idx: Vec<usize> = (0..labels.len()).collect();
            Rng::new(order_seed, 5).shuffle(&mut idx);
            let mut m: HashMap<&str, &str> = HashMap::new();
            for i in idx {
                m.insert(labels[i].as_str(), vals[i].as_str());
            }
            match self {
                AnyVec::C(v) => v.get_metric_with(&m).map(AnyHandle::C).map_err(|e| e.to_string()),
                AnyVec::G(v) => v.get_metric_with(&m).map(AnyHandle::G).map_err(|e| e.to_string()),
            }
        } else {
            let vs: Vec<&str> = vals.iter().map(|s| s.as_str()).collect();
            match self {
                AnyVec::C(v) => v.get_metric_with_label_values(&vs).map(AnyHandle::C).map_err(|e| e.to_string()),
                AnyVec::G(v) => v.get_metric_with_label_values(&vs).map(AnyHandle::G).map_err(|e| e.to_string()),
            }
        }
    }
    fn remove(&self, labels: &[String], vals: &[String], map: bool) -> bool {
        if map {
            let mut m: HashMap<&str, &str> = HashMap::new();
            for i in 0..labels.len() {
                m.insert(labels[i].as_str(), vals[i].as_str());
            }
            match self {
                AnyVec::C(v) => v.remove(&m).is_ok(),
                AnyVec::G(v) => v.remove(&m).is_ok(),
            }
        } else {
            let vs: Vec<&str> = vals.iter().map(|s| s.as_str()).collect();
            match self {
                AnyVec::C(v) => v.remove_label_values(&vs).is_ok(),
                AnyVec::G(v) => v.remove_label_values(&vs).is_ok(),
            }
        }
    }
    fn reset(&self) {
        match self {
            AnyVec::C(v) => v.reset(),
            AnyVec::G(v) => v.reset(),
        }
    }
    fn collect(&self) -> Vec<proto::MetricFamily> {
        match self {
            AnyVec::C(v) => v.collect(),
            AnyVec::G(v) => v.collect(),
        }
    }
}

#[derive(Clone, Debug)]
pub enum VRes {
    Got(bool),
    Removed(bool),
    Done,
    /// (label pairs, value) in the order returned
    Collected(Vec<(Vec<(String, String)>, f64)>),
}

pub const TUPLES2: &[[&str; 2]] = &[["ab", "c"], ["a", "bc"], ["", "abc"], ["é", "x"], ["abc", ""], ["x", "é"], ["a\u{ff}", "b"], ["a", "\u{ff}b"], ["a\u{1f}", ""], ["a", "\u{1f}"], ["/api/v1/organizations/acme/projects/00001", "k"], ["/api/v1/organizations/acme/projects/00002", "k"]];
pub const TUPLES1: &[&str] = &["a", "b", "", "é", "ab", "\u{ff}", "a\u{0}", "/api/v1/organizations/acme/projects/00001", "/api/v1/organizations/acme/projects/00002"];

fn gen_plan(seed: u64) -> VecPlan {
    let mut r = Rng::new(seed, 1);
    let two = r.chance(65);
    // declared order is not always the alphabetical one (map-form requests must follow the declaration)
    let labels: Vec<String> = if two {
        if r.chance(50) {
            vec!["l2".into(), "l1".into()]
        } else {
            vec!["l1".into(), "l2".into()]
        }
    } else {
        vec!["l1".into()]
    };
    let npool = 2 + r.below(3) as usize;
    let mut tuples: Vec<Vec<String>> = vec![];
    if two {
        let mut idx: Vec<usize> = (0..TUPLES2.len()).collect();
        r.shuffle(&mut idx);
        // boundary-shifted pairs are frequent
        if r.chance(50) {
            idx.retain(|&i| i > 1);
            idx.insert(0, 1);
            idx.insert(0, 0);
        }
        for &i in idx.iter().take(npool) {
            tuples.push(TUPLES2[i].iter().map(|s| s.to_string()).collect());
        }
    } else {
        let mut idx: Vec<usize> = (0..TUPLES1.len()).collect();
        r.shuffle(&mut idx);
        for &i in idx.iter().take(npool) {
            tuples.push(vec![TUPLES1[i].to_string()]);
        }
    }
    // a third of the runs are tiny (two threads, one or two operations each, two tuples): most
    // races need only two or three operations, and a small plan meets the right schedule far more often
    let tiny = r.chance(33);
    if tiny {
        tuples.truncate(2);
    }
    let nthreads = if tiny { 2 } else if r.chance(15) { 1 } else { 2 + r.below(2) as usize };
    let mut bit = 8u8;
    let mut threads = vec![];
    let mut nops = 0u64;
    for _ in 0..nthreads {
        let n = if tiny { 1 + r.below(3) as usize } else { 2 + r.below(if nthreads == 1 { 7 } else { 4 }) as usize };
        let mut ops: Vec<VOp> = vec![];
        for i in 0..n {
            let gets: Vec<usize> = ops.iter().enumerate().filter(|(_, o)| matches!(o, VOp::GetInc { .. })).map(|(j, _)| j).collect();
            let roll = if tiny { *r.pick(&[10u64, 10, 10, 70, 70, 79, 90]) } else { r.below(100) };
            let op = match roll {
                0..=49 => {
                    bit += 1;
                    VOp::GetInc { tuple: r.below(tuples.len() as u64) as usize, map: r.chance(35), bit: bit - 1 }
                }
                50..=64 if !gets.is_empty() => {
                    bit += 1;
                    VOp::IncAgain { of: *r.pick(&gets), bit: bit - 1 }
                }
                50..=64 => {
                    bit += 1;
                    VOp::GetInc { tuple: r.below(tuples.len() as u64) as usize, map: r.chance(35), bit: bit - 1 }
                }
                65..=77 => VOp::Remove { tuple: r.below(tuples.len() as u64) as usize, map: r.chance(35) },
                78..=81 => VOp::Reset,
                _ => VOp::Collect,
            };
            let _ = i;
            ops.push(op);
            nops += 1;
        }
        threads.push(ops);
    }
    let faults = r.chance(50);
    let mut env = Env::swarm(&mut r, nthreads, nops * 7 + 10, faults);
    if faults && nthreads > 1 && r.chance(40) {
        // stall biased to the gap between read-unlock and write-lock of a get-or-create
        let t = r.below(nthreads as u64) as usize;
        env.stall = Some(Stall { thread: t, at: 1 + r.below(threads[t].len() as u64 * 4) as u32, len: 10 + r.below(30) as u32 });
    }
    VecPlan { env, kind: if r.chance(70) { VKind::IntCounter } else { VKind::IntGauge }, labels, tuples, threads }
}

// ------------------------------------------------------------------ model
#[derive(Clone, Debug)]
enum MOp {
    /// (tuple, observed child cell)
    Get(usize, u32),
    Remove(usize, bool),
    Reset,
    /// observed (tuple, child cell) set
    Collect(Vec<(usize, u32)>),
    /// observed tuple set only (the collection read its cells in a way that cannot be attributed)
    CollectTuples(Vec<usize>),
}
#[derive(Clone, PartialEq, Eq, Hash, Debug)]
struct MState {
    attached: BTreeMap<usize, u32>,
    seen: BTreeSet<u32>,
}
struct VecSpec;
impl Spec for VecSpec {
    type State = MState;
    type Op = MOp;
    fn step(&self, s: &MState, op: &MOp) -> Option<MState> {
        let mut n = s.clone();
        match op {
            MOp::Get(t, c) => match s.attached.get(t) {
                Some(x) => {
                    if x != c {
                        return None;
                    }
                }
                None => {
                    if s.seen.contains(c) {
                        return None; // must be a fresh child
                    }
                    n.attached.insert(*t, *c);
                    n.seen.insert(*c);
                }
            },
            MOp::Remove(t, ok) => {
                if s.attached.contains_key(t) != *ok {
                    return None;
                }
                n.attached.remove(t);
            }
            MOp::Reset => n.attached.clear(),
            MOp::Collect(v) => {
                let want: Vec<(usize, u32)> = s.attached.iter().map(|(a, b)| (*a, *b)).collect();
                let mut got = v.clone();
                got.sort();
                if got != want {
                    return None;
                }
            }
            MOp::CollectTuples(v) => {
                let want: Vec<usize> = s.attached.keys().copied().collect();
                let mut got = v.clone();
                got.sort();
                if got != want {
                    return None;
                }
            }
        }
        Some(n)
    }
}

fn execute(plan: &VecPlan, mode: Mode) -> RunOut {
    let sim = new_sim(&plan.env, mode);
    let results: Results<VRes> = Arc::new(Mutex::new(vec![]));
    let names: Vec<&str> = plan.labels.iter().map(|s| s.as_str()).collect();
    let opts = Opts::new("c10_vec", "vector under test").const_label("zz", "const");
    let vec = match plan.kind {
        VKind::IntCounter => AnyVec::C(IntCounterVec::new(opts, &names).unwrap()),
        VKind::IntGauge => AnyVec::G(IntGaugeVec::new(opts, &names).unwrap()),
    };
    // handles[(thread, op)] kept alive until the run is judged
    let handles: Arc<Mutex<BTreeMap<(usize, usize), AnyHandle>>> = Arc::new(Mutex::new(BTreeMap::new()));
    {
        let vec = vec.clone();
        let handles = handles.clone();
        let labels = plan.labels.clone();
        let tuples = plan.tuples.clone();
        let hs = plan.env.hash_seed;
        spawn_threads(&sim, &plan.threads, &results, move |_ctx, t, i, op: &VOp| match op {
            VOp::GetInc { tuple, map, bit } => match vec.get(&labels, &tuples[*tuple], *map, hs ^ (t * 100 + i) as u64) {
                Ok(h) => {
                    handles.lock().unwrap().insert((t, i), h.clone());
                    h.add(1u64 << bit);
                    VRes::Got(true)
                }
                Err(_) => VRes::Got(false),
            },
            VOp::IncAgain { of, bit } => {
                let h = handles.lock().unwrap().get(&(t, *of)).cloned();
                if let Some(h) = h {
                    h.add(1u64 << bit);
                }
                VRes::Done
            }
            VOp::Remove { tuple, map } => VRes::Removed(vec.remove(&labels, &tuples[*tuple], *map)),
            VOp::Reset => {
                vec.reset();
                VRes::Done
            }
            VOp::Collect => {
                let mfs = vec.collect();
                let f = compat::family_of(&mfs[0]);
                VRes::Collected(f.metrics.iter().map(|m| (m.labels.clone(), m.counter.or(m.gauge).unwrap_or(f64::NAN))).collect())
            }
        });
    }
    // one more collection after all threads have finished (read under the scheduler): whatever state a
    // race left behind must still be explained by the map model
    let fin: Arc<Mutex<Option<VRes>>> = Arc::new(Mutex::new(None));
    {
        let vec = vec.clone();
        let fin = fin.clone();
        spawn_final(&sim, move |_| {
            let mfs = vec.collect();
            let f = compat::family_of(&mfs[0]);
            *fin.lock().unwrap() = Some(VRes::Collected(f.metrics.iter().map(|m| (m.labels.clone(), m.counter.or(m.gauge).unwrap_or(f64::NAN))).collect()));
        });
    }
    let res = sim.run();
    let mut out = base_out(&plan.env, &res);
    for (t, p) in &res.panics {
        out.violations.push(Violation::new("C10/panic", "C10/panic", format!("thread {} panicked: {}", t, p)));
    }
    if res.outcome == Outcome::Stuck {
        out.violations.push(Violation::new("C10/stuck", "C10/stuck", "no thread can make progress (lock cycle?)".to_string()));
        return out;
    }
    if !is_finished(&res) {
        return out;
    }
    let iv = intervals(&res.log);
    let mut results = results.lock().unwrap().clone();
    if let Some(f) = fin.lock().unwrap().clone() {
        results.push((FINAL_OP, Ok(f)));
    }
    let handles = handles.lock().unwrap();
    // ---- observed identity: cell of every inc (by its unique bit), loads inside collects
    let mut cell_of_bit: BTreeMap<u8, u32> = BTreeMap::new();
    let mut cur_op: BTreeMap<u8, u32> = BTreeMap::new();
    let mut loads_in_op: BTreeMap<u32, Vec<u32>> = BTreeMap::new();
    for e in &res.log {
        match e {
            Ev::Api { t, op, phase } => {
                if *phase == crate::engine::Phase::Invoke {
                    cur_op.insert(*t, *op);
                } else {
                    cur_op.remove(t);
                }
            }
            // an update of weight 2^bit is recognised by its effect on the cell, however it is
            // implemented: fetch_add(2^bit) or a successful CAS whose new value is old + 2^bit
            Ev::Op { kind: OpKind::FetchAdd, loc, a, .. } if a.count_ones() == 1 && *a >= 256 => {
                cell_of_bit.insert(a.trailing_zeros() as u8, *loc);
            }
            Ev::Op { kind: OpKind::Cas | OpKind::CasWeak, loc, a, b, ok: true, .. } if b.wrapping_sub(*a).count_ones() == 1 && b.wrapping_sub(*a) >= 256 => {
                cell_of_bit.insert(b.wrapping_sub(*a).trailing_zeros() as u8, *loc);
            }
            Ev::Op { t, kind: OpKind::Load, loc, .. } => {
                if let Some(op) = cur_op.get(t) {
                    loads_in_op.entry(*op).or_default().push(*loc);
                }
            }
            _ => {}
        }
    }
    // bit -> op that applied it, handle binding
    let mut incs: Vec<(u8, usize, usize, u32)> = vec![]; // (bit, inv, ret, cell)
    let mut h: Vec<HOp<MOp>> = vec![];
    let tuple_of_values = |labels: &Vec<(String, String)>| -> Option<usize> {
        let vals: Vec<String> = plan.labels.iter().map(|n| labels.iter().find(|(k, _)| k == n).map(|(_, v)| v.clone()).unwrap_or_default()).collect();
        plan.tuples.iter().position(|t| *t == vals)
    };
    let mut collects: Vec<(u32, usize, usize, Vec<(u32, f64)>)> = vec![];
    // successful detaches: (tuple or None for reset, invoke, return); children: cell -> (tuple, earliest return of a get)
    let mut detaches: Vec<(Option<usize>, usize, usize)> = vec![];
    let mut born: BTreeMap<u32, (usize, usize)> = BTreeMap::new();
    let mut ident_unavailable = 0u64;
    let mut identity_lost = false;
    let final_collect = VOp::Collect;
    for (id, r) in results.iter() {
        let t = op_thread(*id);
        let i = *id as usize % 1000;
        let (inv, ret) = iv[id];
        let op = if *id == FINAL_OP { &final_collect } else { &plan.threads[t][i] };
        let r = match r {
            Ok(r) => r,
            Err(p) => {
                out.violations.push(Violation::new("C10/panic", "C10/panic", format!("op {:?} panicked: {}", op, p)));
                continue;
            }
        };
        match (op, r) {
            (VOp::GetInc { tuple, bit, .. }, VRes::Got(true)) => match cell_of_bit.get(bit) {
                Some(c) => {
                    incs.push((*bit, inv, ret, *c));
                    let e = born.entry(*c).or_insert((*tuple, ret));
                    e.1 = e.1.min(ret);
                    h.push(HOp { inv, ret, op: MOp::Get(*tuple, *c) });
                }
                None => identity_lost = true, // the update is implemented in a way the log cannot attribute
            },
            (VOp::GetInc { .. }, _) => out.violations.push(Violation::new("C10/map", "C10/get-error", format!("get-or-create op {} with correct labels returned an error", id))),
            (VOp::IncAgain { bit, .. }, _) => {
                if let Some(c) = cell_of_bit.get(bit) {
                    incs.push((*bit, inv, ret, *c));
                }
            }
            (VOp::Remove { tuple, .. }, VRes::Removed(ok)) => {
                if *ok {
                    detaches.push((Some(*tuple), inv, ret));
                }
                h.push(HOp { inv, ret, op: MOp::Remove(*tuple, *ok) })
            }
            (VOp::Reset, _) => {
                detaches.push((None, inv, ret));
                h.push(HOp { inv, ret, op: MOp::Reset })
            }
            (VOp::Collect, VRes::Collected(samples)) => {
                let loads = loads_in_op.get(id).cloned().unwrap_or_default();
                // identity of the collected children is observable only if the collection read
                // exactly one cell per sample; otherwise only the label-level checks apply
                let ident = loads.len() == samples.len();
                if !ident {
                    ident_unavailable += 1;
                }
                let mut set = vec![];
                let mut tuple_set = vec![];
                let mut seen_tuples = BTreeSet::new();
                let mut vals = vec![];
                for (k, (labels, v)) in samples.iter().enumerate() {
                    match tuple_of_values(labels) {
                        Some(ti) => {
                            if !seen_tuples.insert(ti) {
                                out.violations.push(Violation::new("C10/map", "C10/duplicate", format!("collect op {} shows label values {:?} twice", id, plan.tuples[ti])));
                            }
                            tuple_set.push(ti);
                            if ident {
                                set.push((ti, loads[k]));
                            }
                        }
                        None => out.violations.push(Violation::new("C10/map", "C10/labels", format!("collect op {} shows label pairs {:?} that belong to no requested tuple", id, labels))),
                    }
                    if ident {
                        vals.push((loads[k], *v));
                    }
                }
                if !ident {
                    h.push(HOp { inv, ret, op: MOp::CollectTuples(tuple_set) });
                    continue;
                }
                h.push(HOp { inv, ret, op: MOp::Collect(set) });
                collects.push((*id, inv, ret, vals));
            }
            _ => {}
        }
    }
    // ---- (1) map-level linearizability
    if identity_lost {
        // without observable child identity only the value-level clauses below can be checked
        out.probes.push(("runs_without_observable_identity", 1));
    } else if linearize(&VecSpec, MState { attached: BTreeMap::new(), seen: BTreeSet::new() }, &h).is_none() {
        let desc: Vec<String> = h.iter().map(|o| format!("[{}..{}] {:?}", o.inv, o.ret, o.op)).collect();
        // specific shape for the known-findings matcher: two different tuples bound to one child
        let mut alias = None;
        for a in &h {
            for b in &h {
                if let (MOp::Get(t1, c1), MOp::Get(t2, c2)) = (&a.op, &b.op) {
                    if t1 != t2 && c1 == c2 {
                        alias = Some((*t1, *t2));
                    }
                }
            }
        }
        let key = match alias {
            Some((a, b)) if plan.tuples[a].concat() == plan.tuples[b].concat() => "C10/map:alias-same-concatenation".to_string(),
            Some(_) => "C10/map:alias".to_string(),
            None => "C10/map".to_string(),
        };
        let extra = alias.map(|(a, b)| format!(" (tuples {:?} and {:?} were served by the same child)", plan.tuples[a], plan.tuples[b])).unwrap_or_default();
        out.violations.push(Violation::new("C10/map", key, format!("map operations are not linearizable against a map from label values to children{}; tuples {:?}; history: {}", extra, plan.tuples, desc.join("; "))));
    }
    // ---- (2) per-child update rule
    for (id, inv, ret, vals) in &collects {
        for (cell, v) in vals {
            let u = match f2u(*v) {
                Some(u) => u,
                None => {
                    out.violations.push(Violation::new("C10/update", "C10/update", format!("collect op {} shows value {} which is no sum of issued updates", id, v)));
                    continue;
                }
            };
            for (bit, iinv, iret, c) in &incs {
                let has = u & (1u64 << bit) != 0;
                // a removed child no longer appears in collections while handles to it stay usable: an
                // update made through a stale handle AFTER the child was detached cannot be part of a
                // sample that a collection shows for that child
                if has && c == cell {
                    if let Some((t, first_ret)) = born.get(c) {
                        if detaches.iter().any(|(dt, dinv, dret)| (dt.is_none() || *dt == Some(*t)) && first_ret < dinv && dret < iinv) {
                            out.violations.push(Violation::new("C10/update", "C10/stale-update-collected", format!("collect op {} shows child {:?} with update 2^{} that was made through a stale handle after the child had been removed from the vector", id, plan.tuples[*t], bit)));
                        }
                    }
                }
                if has && (c != cell || iinv > ret) {
                    out.violations.push(Violation::new("C10/update", "C10/update", format!("collect op {}: child shows update 2^{} that was made on another child or had not started", id, bit)));
                }
                if !has && c == cell && iret < inv {
                    out.violations.push(Violation::new("C10/update", "C10/update", format!("collect op {}: child misses update 2^{} that completed before the collection started (lost update)", id, bit)));
                }
            }
            let known: u64 = incs.iter().fold(0, |a, i| a | 1u64 << i.0);
            if u & !known != 0 {
                out.violations.push(Violation::new("C10/update", "C10/update", format!("collect op {} shows value {} with weights nobody added", id, v)));
            }
        }
    }
    // quiescent: every handle reads exactly the updates made on its child
    for ((t, i), hd) in handles.iter() {
        if let VOp::GetInc { bit, .. } = &plan.threads[*t][*i] {
            if let Some(cell) = cell_of_bit.get(bit) {
                let want: u64 = incs.iter().filter(|x| x.3 == *cell).fold(0, |a, x| a | 1u64 << x.0);
                let got = hd.get();
                if got != want {
                    out.violations.push(Violation::new("C10/update", "C10/final", format!("after quiescence the handle of op {} reads {:#x} but the updates made through handles of that child sum to {:#x}", op_id(*t, *i), got, want)));
                }
            }
        }
    }
    out.probes.push(("collects_checked", collects.len() as u64));
    out.probes.push(("collects_without_observable_identity", ident_unavailable));
    out.probes.push(("single_threaded_history", (plan.threads.len() == 1) as u64));
    out
}

pub struct C10;
impl Scenario for C10 {
    fn id(&self) -> &'static str {
        "C10"
    }
    fn name(&self) -> &'static str {
        "vector-linearizability"
    }
    fn runs(&self, tier: Tier) -> u64 {
        match tier {
            Tier::Quick => 150_000,
            Tier::Thorough => 4_000_000,
        }
    }
    fn gen(&self, seed: u64, _tier: Tier) -> Value {
        serde_json::to_value(gen_plan(seed)).unwrap()
    }
    fn run(&self, plan: &Value, mode: Mode) -> RunOut {
        let plan: VecPlan = serde_json::from_value(plan.clone()).expect("C10 plan");
        let hs = plan.env.hash_seed;
        isolated(hs, move || execute(&plan, mode))
    }
    fn shrink(&self, plan: &Value) -> Vec<Value> {
        let p: VecPlan = serde_json::from_value(plan.clone()).unwrap();
        let mut c = vec![];
        // removing an op must keep IncAgain references valid
        for threads in shrink_threads(&p.threads) {
            let ok = threads.iter().all(|ops| ops.iter().enumerate().all(|(i, o)| if let VOp::IncAgain { of, .. } = o { *of < i && matches!(ops[*of], VOp::GetInc { .. }) } else { true }));
            if ok {
                c.push(VecPlan { threads, ..p.clone() });
            }
        }
        for e in shrink_env(&p.env) {
            c.push(VecPlan { env: e, ..p.clone() });
        }
        // map form -> values form
        for t in 0..p.threads.len() {
            for i in 0..p.threads[t].len() {
                let mut n = p.threads.clone();
                match &mut n[t][i] {
                    VOp::GetInc { map, .. } | VOp::Remove { map, .. } if *map => *map = false,
                    _ => continue,
                }
                c.push(VecPlan { threads: n, ..p.clone() });
            }
        }
        c.into_iter().map(|p| serde_json::to_value(p).unwrap()).collect()
    }
    fn info(&self) -> Info {
        Info {
            rule: "one run = one generated plan (1-3 threads x 2-8 get-or-create+update / update-through-old-handle / remove / reset / collect ops on one IntCounterVec or IntGaugeVec with 1-2 labels and a pool of 2-4 label-value tuples incl. boundary-shifted ones) under one seeded schedule; child identity is observed from the atomic cell each update and each collected sample touched; the history of map operations is checked for linearizability against a map model and every value against the per-child update rule; non-trivial = API calls of different threads overlapped (single-threaded histories are compared sequentially); distinct = distinct conflict signatures",
            assumptions: vec!["sequentially consistent interleavings at shim-visible operations", "handles are kept alive until the run ends so no child address is reused inside a run", "a collection is not required to be an atomic snapshot of the values of different children (DESIGN 6/C10)"],
            real: vec!["prometheus::{IntCounterVec,IntGaugeVec} and their children (all code)", "parking_lot RwLock and std atomics underneath the shim"],
            stubbed: vec!["thread scheduling (baton)", "lock arbitration (no writer preference)", "stalls", "OS randomness for hash seeds (map-form requests)"],
            expected_probes: vec!["api_calls_overlapping", "blocked_on_lock", "collects_checked", "single_threaded_history"],
        }
    }
}
