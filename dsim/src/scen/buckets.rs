//! C08: bucket counts follow `value <= upper bound` for every input; acceptance of bucket lists.
use crate::common::*;
use crate::compat::{self, feq, PHist};
use crate::driver::{Info, RunOut, Scenario, Tier, Violation};
use crate::engine::{Env, Mode, Outcome};
use crate::rng::Rng;
use prometheus::core::Collector;
use prometheus::*;
use serde::{Deserialize, Serialize};
use serde_json::Value;
use std::sync::{Arc, Mutex};

#[derive(Serialize, Deserialize, Clone, Debug, PartialEq)]
pub enum Through {
    Histogram,
    VecChild,
    Local,
    LocalVec,
}
#[derive(Serialize, Deserialize, Clone, Debug, PartialEq)]
pub enum BOp {
    Observe(#[serde(with = "compat::fbits")] f64),
    Flush,
    Collect,
    /// local paths: clone the local histogram and drop the clone at once (a clone starts empty, so
    /// nothing may reach the shared histogram); a no-op on the other paths
    CloneDrop,
    /// local paths: the local histogram (vector) is dropped while the thread unwinds from an injected
    /// panic - it must flush like any other drop - and a fresh one takes its place
    PanicDrop,
}
#[derive(Serialize, Deserialize, Clone, Debug)]
pub struct BucketPlan {
    pub env: Env,
    #[serde(with = "compat::fbits::list")]
    pub bounds: Vec<f64>,
    pub through: Through,
    pub ops: Vec<BOp>,
}

fn next_up(x: f64) -> f64 {
    if x.is_nan() || x == f64::INFINITY {
        return x;
    }
    if x == 0.0 {
        return f64::from_bits(1);
    }
    let b = x.to_bits();
    f64::from_bits(if x > 0.0 { b + 1 } else { b - 1 })
}
fn next_down(x: f64) -> f64 {
    -next_up(-x)
}

fn gen_plan(seed: u64) -> BucketPlan {
    let mut r = Rng::new(seed, 1);
    let base: Vec<f64> = vec![-5.0, -0.0, 0.0, 5e-324, 0.005, 0.1, 1.0, 2.5, 1e10, 1e300];
    let mut bounds: Vec<f64> = match r.below(14) {
        0 => vec![],
        // long lists (an implementation may switch its search strategy with the number of bounds)
        12 | 13 => {
            let n = *r.pick(&[8usize, 15, 16, 17, 18, 31, 32, 33, 64, 65, 100]);
            match r.below(3) {
                0 => linear_buckets(*r.pick(&[-4.0, 0.0, 0.5]), *r.pick(&[0.25, 1.0, 1e-3]), n).unwrap_or_default(),
                1 => exponential_buckets(*r.pick(&[1e-9, 1.0, 3.0]), *r.pick(&[1.5, 2.0]), n).unwrap_or_default(),
                _ => {
                    let mut v: Vec<f64> = (0..n).map(|_| (r.below(400) as f64) * 0.25 - 30.0).collect();
                    v.sort_by(|a, b| a.partial_cmp(b).unwrap());
                    v.dedup();
                    v
                }
            }
        }
        1 => linear_buckets(*r.pick(&[-1.0, 0.0, 0.5]), *r.pick(&[0.25, 1.0, 1e-3]), 1 + r.below(5) as usize).unwrap_or_default(),
        2 => exponential_buckets(*r.pick(&[0.001, 1.0, 3.0]), *r.pick(&[1.5, 2.0, 10.0]), 1 + r.below(5) as usize).unwrap_or_default(),
        _ => {
            let n = 1 + r.below(5) as usize;
            let mut v: Vec<f64> = (0..n).map(|_| *r.pick(&base)).collect();
            if r.chance(75) {
                v.sort_by(|a, b| a.partial_cmp(b).unwrap());
                if r.chance(80) {
                    v.dedup_by(|a, b| a == b);
                }
            }
            v
        }
    };
    // adversarial edits
    if r.chance(15) {
        bounds.push(f64::INFINITY);
    }
    if r.chance(10) {
        let i = r.below(bounds.len() as u64 + 1) as usize;
        bounds.insert(i, f64::NAN);
    }
    if r.chance(5) {
        bounds.insert(0, f64::NEG_INFINITY);
    }
    if r.chance(4) && !bounds.is_empty() {
        let i = r.below(bounds.len() as u64) as usize;
        bounds.insert(i, f64::INFINITY);
    }
    let through = match r.below(10) {
        0..=4 => Through::Histogram,
        5..=6 => Through::VecChild,
        7..=8 => Through::Local,
        _ => Through::LocalVec,
    };
    let n = 1 + r.below(10) as usize;
    let mut pool: Vec<f64> = vec![f64::NAN, -f64::NAN, f64::from_bits(0x7ff0_0000_0000_0001), f64::from_bits(0xfff8_0000_0000_00ff), f64::INFINITY, f64::NEG_INFINITY, 0.0, -0.0, 5e-324, -5e-324, 1e308, -1e308, 0.1, 0.2, 0.30000000000000004];
    for b in &bounds {
        pool.push(*b);
        pool.push(next_up(*b));
        pool.push(next_down(*b));
    }
    for b in DEFAULT_BUCKETS.iter() {
        pool.push(*b);
    }
    let mut ops = vec![];
    for _ in 0..n {
        match r.below(10) {
            0..=6 => ops.push(BOp::Observe(*r.pick(&pool))),
            7 => ops.push(BOp::Flush),
            8 if r.chance(40) => ops.push(if r.chance(50) { BOp::CloneDrop } else { BOp::PanicDrop }),
            _ => ops.push(BOp::Collect),
        }
    }
    ops.push(BOp::Flush);
    ops.push(BOp::Collect);
    BucketPlan { env: Env::basic(r.next()), bounds, through, ops }
}

/// The statement's acceptance rule; Some(effective bounds) if accepted.
pub fn model_adjust(bounds: &[f64]) -> Option<Vec<f64>> {
    let mut b: Vec<f64> = if bounds.is_empty() { DEFAULT_BUCKETS.to_vec() } else { bounds.to_vec() };
    if b.iter().any(|x| x.is_nan()) {
        return None;
    }
    if b.windows(2).any(|w| !(w[0] < w[1])) {
        return None;
    }
    if *b.last().unwrap() == f64::INFINITY {
        b.pop();
    }
    Some(b)
}

#[derive(Clone, Debug, Default)]
struct Model {
    bounds: Vec<f64>,
    vals: Vec<f64>,
    sum: f64,
}
impl Model {
    fn snapshot(&self) -> PHist {
        PHist { count: self.vals.len() as u64, sum: self.sum, buckets: self.bounds.iter().map(|b| (*b, self.vals.iter().filter(|v| **v <= *b).count() as u64)).collect() }
    }
}

fn execute(plan: &BucketPlan, mode: Mode) -> RunOut {
    let sim = new_sim(&plan.env, mode);
    let viol: Arc<Mutex<Vec<Violation>>> = Arc::new(Mutex::new(vec![]));
    let probes: Arc<Mutex<(u64, u64, u64)>> = Arc::new(Mutex::new((0, 0, 0)));
    let keep = Keep::new();
    {
        let plan = plan.clone();
        let viol = viol.clone();
        let probes = probes.clone();
        let keep = keep.clone();
        sim.spawn("buckets", false, move |ctx| {
            ctx.invoke(0);
            let mut v: Vec<Violation> = vec![];
            let opts = HistogramOpts::new("c08_h", "help").buckets(plan.bounds.clone());
            let want = model_adjust(&plan.bounds);
            let (h, hv): (std::result::Result<Histogram, String>, Option<HistogramVec>) = match plan.through {
                Through::Histogram | Through::Local => (Histogram::with_opts(opts).map_err(|e| e.to_string()), None),
                _ => match HistogramVec::new(opts, &["l"]) {
                    // a vector validates its buckets when the first child is built
                    Ok(hv) => (hv.get_metric_with_label_values(&["x"]).map_err(|e| e.to_string()), Some(hv)),
                    Err(e) => (Err(e.to_string()), None),
                },
            };
            match (&h, &want) {
                (Ok(_), None) => {
                    let key = if plan.bounds.iter().any(|x| x.is_nan()) { "C08/accept:nan-bound" } else { "C08/accept" };
                    v.push(Violation::new("C08/accept", key, format!("bucket list {:?} was accepted although its bounds are not strictly increasing numbers", plan.bounds)));
                }
                (Err(e), Some(_)) => v.push(Violation::new("C08/accept", "C08/reject", format!("bucket list {:?} was refused ({}) although its bounds are strictly increasing numbers", plan.bounds, e))),
                _ => {}
            }
            if let (Ok(h), Some(b)) = (&h, &want) {
                probes.lock().unwrap().0 += 1;
                let mut shared = Model { bounds: b.clone(), ..Default::default() };
                let mut pending = Model { bounds: b.clone(), ..Default::default() };
                let mut local = if plan.through == Through::Local { Some(h.local()) } else { None };
                let mut lvec = if plan.through == Through::LocalVec { hv.as_ref().map(|x| x.local()) } else { None };
                for (i, op) in plan.ops.iter().enumerate() {
                    match op {
                        BOp::Observe(x) => {
                            if let Some(l) = &local {
                                l.observe(*x);
                                pending.vals.push(*x);
                                pending.sum += *x;
                            } else if let Some(lv) = lvec.as_mut() {
                                lv.with_label_values(&["x"]).observe(*x);
                                pending.vals.push(*x);
                                pending.sum += *x;
                            } else {
                                h.observe(*x);
                                shared.vals.push(*x);
                                shared.sum += *x;
                            }
                        }
                        BOp::Flush => {
                            if let Some(l) = &local {
                                l.flush();
                            }
                            if let Some(lv) = &lvec {
                                lv.flush();
                            }
                            if local.is_some() || lvec.is_some() {
                                if !pending.vals.is_empty() {
                                    shared.vals.extend(pending.vals.drain(..));
                                    shared.sum += pending.sum;
                                    pending.sum = 0.0;
                                }
                            }
                        }
                        BOp::PanicDrop => {
                            if let Some(l) = local.take() {
                                drop_while_unwinding(l);
                                local = Some(h.local());
                            }
                            if let Some(lv) = lvec.take() {
                                drop_while_unwinding(lv);
                                lvec = hv.as_ref().map(|x| x.local());
                            }
                            if !pending.vals.is_empty() {
                                shared.vals.extend(pending.vals.drain(..));
                                shared.sum += pending.sum;
                                pending.sum = 0.0;
                            }
                        }
                        BOp::CloneDrop => {
                            if let Some(l) = &local {
                                let c = l.clone();
                                drop(c);
                            }
                            if let Some(lv) = &lvec {
                                let c = lv.clone();
                                drop(c);
                            }
                        }
                        BOp::Collect => {
                            probes.lock().unwrap().1 += 1;
                            let mfs = match &hv {
                                Some(hv) => hv.collect(),
                                None => h.collect(),
                            };
                            let got = compat::family_of(&mfs[0]).metrics[0].hist.clone().unwrap();
                            let w = shared.snapshot();
                            let same = got.count == w.count && feq(got.sum, w.sum, false) && got.buckets.len() == w.buckets.len() && got.buckets.iter().zip(&w.buckets).all(|(a, b)| feq(a.0, b.0, true) && a.1 == b.1);
                            if !same {
                                let clause = if got.count != w.count {
                                    "count"
                                } else if !feq(got.sum, w.sum, false) {
                                    "sum"
                                } else {
                                    "buckets"
                                };
                                v.push(Violation::new("C08/snapshot", format!("C08/snapshot:{}", clause), format!("after op {} the histogram reports count={} sum={} buckets={:?}; observations {:?} with bounds {:?} give count={} sum={} buckets={:?}", i, got.count, got.sum, got.buckets, shared.vals, b, w.count, w.sum, w.buckets)));
                            }
                            if let Some(l) = &local {
                                if l.get_sample_count() != pending.vals.len() as u64 || !feq(l.get_sample_sum(), pending.sum, false) {
                                    v.push(Violation::new("C08/snapshot", "C08/local-getters", format!("local histogram reports {}/{} for pending observations {:?}", l.get_sample_count(), l.get_sample_sum(), pending.vals)));
                                }
                            }
                        }
                    }
                }
                if shared.vals.iter().any(|x| x.is_nan()) {
                    probes.lock().unwrap().2 += 1;
                }
                keep.push(local);
                keep.push(lvec);
            }
            keep.push(h.ok());
            keep.push(hv);
            ctx.ret(0);
            viol.lock().unwrap().extend(v);
        });
    }
    let res = sim.run();
    drop(keep);
    let mut out = base_out(&plan.env, &res);
    out.nontrivial = plan.ops.len() >= 3;
    for (t, p) in &res.panics {
        out.violations.push(Violation::new("C08/panic", "C08/panic", format!("thread {} panicked: {}", t, p)));
    }
    if res.outcome == Outcome::Stuck {
        out.violations.push(Violation::new("C08/stuck", "C08/stuck", "collect never returns".to_string()));
    }
    out.violations.extend(viol.lock().unwrap().drain(..));
    let mut fp = crate::rng::Fp::default();
    fp.str(&serde_json::to_string(&(&plan.ops, &plan.through)).unwrap());
    for b in &plan.bounds {
        fp.u64(b.to_bits());
    }
    out.signature = fp.0;
    let p = probes.lock().unwrap();
    out.probes.push(("accepted_configurations", p.0));
    out.probes.push(("snapshots_compared", p.1));
    out.probes.push(("histories_with_nan_observation", p.2));
    out.probes.push(("rejected_configurations", (model_adjust(&plan.bounds).is_none()) as u64));
    out
}

pub struct C08;
impl Scenario for C08 {
    fn id(&self) -> &'static str {
        "C08"
    }
    fn name(&self) -> &'static str {
        "bucket-rule"
    }
    fn runs(&self, tier: Tier) -> u64 {
        match tier {
            Tier::Quick => 150_000,
            Tier::Thorough => 4_000_000,
        }
    }
    fn gen(&self, seed: u64, _tier: Tier) -> Value {
        serde_json::to_value(gen_plan(seed)).unwrap()
    }
    fn run(&self, plan: &Value, mode: Mode) -> RunOut {
        let plan: BucketPlan = serde_json::from_value(plan.clone()).expect("C08 plan");
        let hs = plan.env.hash_seed;
        isolated(hs, move || execute(&plan, mode))
    }
    fn shrink(&self, plan: &Value) -> Vec<Value> {
        let p: BucketPlan = serde_json::from_value(plan.clone()).unwrap();
        let mut c = vec![];
        for i in 0..p.ops.len() {
            if p.ops.len() > 1 {
                let mut n = p.clone();
                n.ops.remove(i);
                c.push(n);
            }
        }
        for i in 0..p.bounds.len() {
            let mut n = p.clone();
            n.bounds.remove(i);
            if !n.bounds.is_empty() {
                c.push(n);
            }
        }
        if p.through != Through::Histogram {
            let mut n = p.clone();
            n.through = Through::Histogram;
            c.push(n);
        }
        c.into_iter().map(|p| serde_json::to_value(p).unwrap()).collect()
    }
    fn info(&self) -> Info {
        Info {
            rule: "one run = one bucket list (ordered, unordered, duplicated, NaN-containing, infinite, empty, linear_buckets / exponential_buckets made) and a history of 1-10 observations drawn from the bounds themselves, their floating-point neighbours, signed zeros, subnormals, infinities and NaN, with flushes and collections in between, through Histogram, a HistogramVec child, LocalHistogram or LocalHistogramVec, on one simulated thread; acceptance is compared with the statement's rule and every snapshot with a reference histogram (count, cumulative buckets by `<=`, sum as the left fold in observation order; for local histograms prior + fold(batch)); non-trivial = >=3 operations; distinct = distinct (bounds, path, operation list)",
            assumptions: vec!["group C: a sequential reference-model comparison; the scheduler runs a single simulated thread"],
            real: vec!["prometheus::{Histogram,HistogramVec,LocalHistogram,LocalHistogramVec}, linear_buckets, exponential_buckets"],
            stubbed: vec!["thread scheduling (single thread)"],
            expected_probes: vec!["accepted_configurations", "snapshots_compared", "histories_with_nan_observation", "rejected_configurations"],
        }
    }
}
