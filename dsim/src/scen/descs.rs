//! C15 (descriptor identity is structural) and C09 (only well-formed, distinct names are exposed).
use crate::common::*;
use crate::compat::{self};
use crate::driver::{Info, RunOut, Scenario, Tier, Violation};
use crate::engine::{Env, Mode};
use crate::rng::Rng;
use crate::scen::registry::DescSpec;
use crate::seams::set_hash_seed;
use prometheus::core::{Collector, Desc};
use prometheus::*;
use serde::{Deserialize, Serialize};
use serde_json::Value;
use std::collections::{BTreeSet, HashMap};
use std::sync::{Arc, Mutex};

// =============================================================================== C15
#[derive(Serialize, Deserialize, Clone, Debug)]
pub struct DescPlan {
    pub env: Env,
    pub descs: Vec<DescSpec>,
    /// per replica: hash seed and a permutation seed for insertion orders
    pub replicas: Vec<(u64, u64)>,
    /// (i, spec): right before descriptor i is built, the same thread tries to build `spec`, which is
    /// malformed in one way or another and refused; a refused construction must not influence the
    /// identity of the descriptors built afterwards
    #[serde(default)]
    pub rejects: Vec<(usize, DescSpec)>,
}

fn split2(s: &str, r: &mut Rng) -> (String, String) {
    let idx: Vec<usize> = s.char_indices().map(|(i, _)| i).chain(std::iter::once(s.len())).collect();
    let c = *r.pick(&idx);
    (s[..c].to_string(), s[c..].to_string())
}

fn gen_desc_plan(seed: u64) -> DescPlan {
    let mut r = Rng::new(seed, 1);
    let n = 3 + r.below(6) as usize;
    let bases = ["abcd", "a_b_c", "xyxy", "m_total", "aaaa"];
    let base = *r.pick(&bases);
    let label_names = ["a", "ab", "b", "a_b", "c"];
    // (help texts that end in what the marker of a variable label could look like)
    let help_pool = ["h", "hh", "h a", "ha", "a", "h$a", "h$ab", "h$a$b", "h$c"];
    let mut descs = vec![];
    for _ in 0..n {
        // name/value boundary shifts: fq_name and first constant value are a split of one string
        let (mut name, v0) = split2(base, &mut r);
        if name.is_empty() || !name.chars().next().unwrap().is_ascii_alphabetic() {
            name = format!("n{}", name);
        }
        let nc = r.below(3) as usize;
        let mut consts = vec![];
        let mut used = BTreeSet::new();
        for i in 0..nc {
            let k = r.pick(&label_names).to_string();
            if used.insert(k.clone()) {
                let val = if i == 0 { v0.clone() } else { split2(base, &mut r).1 };
                consts.push((k, val));
            }
        }
        let nv = r.below(3) as usize;
        let mut vars = vec![];
        for _ in 0..nv {
            let k = r.pick(&label_names).to_string();
            if used.insert(k.clone()) {
                vars.push(k);
            }
        }
        descs.push(DescSpec { name, help: r.pick(&help_pool).to_string(), consts, vars });
    }
    // many labels (sizes that cross 8 / 16): the same descriptor twice with the labels in another
    // order, and a third one with two values swapped
    if r.chance(4) {
        let n = *r.pick(&[9usize, 16, 17, 33]);
        let consts: Vec<(String, String)> = (0..n).map(|i| (format!("l{:02}", i), split2(base, &mut r).1)).collect();
        let d = DescSpec { name: "many".into(), help: "h".into(), consts, vars: vec!["v".into()] };
        let mut e = d.clone();
        r.shuffle(&mut e.consts);
        let mut f = d.clone();
        let (i, j) = (0, n - 1);
        if f.consts[i].1 != f.consts[j].1 {
            let t = f.consts[i].1.clone();
            f.consts[i].1 = f.consts[j].1.clone();
            f.consts[j].1 = t;
        }
        descs.push(d);
        descs.push(e);
        descs.push(f);
    }
    // make sure equal pairs occur: duplicate one with shuffled labels
    if r.chance(60) {
        let mut d = r.pick(&descs).clone();
        r.shuffle(&mut d.consts);
        r.shuffle(&mut d.vars);
        descs.push(d);
    }
    // a pair that swaps values between two constant labels (same multiset, different assignment)
    if r.chance(40) {
        if let Some(d) = descs.iter().find(|d| d.consts.len() == 2 && d.consts[0].1 != d.consts[1].1).cloned() {
            let mut e = d.clone();
            let t = e.consts[0].1.clone();
            e.consts[0].1 = e.consts[1].1.clone();
            e.consts[1].1 = t;
            descs.push(e);
        }
    }
    // twins whose constant-label VALUES are boundary-shifted around a character that a sloppy
    // separator could be confused with (U+00FF encodes as C3 BF; U+001F, NUL, ',' and '=' likewise)
    if r.chance(45) {
        let sep = *r.pick(&["\u{ff}", "\u{1f}", "\u{0}", ",", "=", "\u{ff}\u{ff}"]);
        let (p0, p1, p2) = (*r.pick(&["a", "", "x\u{ff}"]), *r.pick(&["b", "", "\u{ff}"]), *r.pick(&["c", "", "z"]));
        let name = "tw".to_string();
        let help = "h".to_string();
        let a = DescSpec { name: name.clone(), help: help.clone(), consts: vec![("k1".into(), p0.to_string()), ("k2".into(), format!("{}{}{}", p1, sep, p2))], vars: vec![] };
        let b = DescSpec { name, help, consts: vec![("k1".into(), format!("{}{}{}", p0, sep, p1)), ("k2".into(), p2.to_string())], vars: vec![] };
        descs.push(a);
        descs.push(b);
    }
    let replicas = (0..3).map(|_| (r.next(), r.next())).collect();
    let mut rejects = vec![];
    for i in 0..descs.len() {
        if !r.chance(30) {
            continue;
        }
        // a well-formed start (name, help, constant labels of some descriptor of the plan, or fresh
        // ones) spoiled at a late stage: most checks come after part of the work has been done
        let mut bad = r.pick(&descs).clone();
        if bad.consts.is_empty() || r.chance(30) {
            bad.consts = vec![("zone".to_string(), "eu".to_string()), ("a".to_string(), split2(base, &mut r).0)];
        }
        match r.below(6) {
            0 => bad.vars = vec!["9bad".to_string()],
            1 => bad.vars = vec!["v".to_string(), "v".to_string()],
            2 => bad.vars = vec![bad.consts[0].0.clone()],
            3 => bad.vars = vec!["ok".to_string(), "é".to_string()],
            4 => bad.help = String::new(),
            _ => bad.consts.push(("bad name".to_string(), "x".to_string())),
        }
        rejects.push((i, bad));
    }
    DescPlan { env: Env::basic(r.next()), descs, replicas, rejects }
}

fn build_desc(s: &DescSpec, perm_seed: u64) -> std::result::Result<(u64, u64), String> {
    let mut order: Vec<usize> = (0..s.consts.len()).collect();
    Rng::new(perm_seed, 3).shuffle(&mut order);
    let mut m = HashMap::new();
    for i in order {
        m.insert(s.consts[i].0.clone(), s.consts[i].1.clone());
    }
    let mut vars = s.vars.clone();
    Rng::new(perm_seed, 4).shuffle(&mut vars);
    Desc::new(s.name.clone(), s.help.clone(), vars, m).map(|d| (d.id, d.dim_hash)).map_err(|e| e.to_string())
}

fn execute_c15(plan: &DescPlan, mode: Mode) -> RunOut {
    // every replica builds all descriptors on its own simulated thread (own hash seed)
    let sim = new_sim(&plan.env, mode);
    let outp: Arc<Mutex<Vec<Vec<std::result::Result<(u64, u64), String>>>>> = Arc::new(Mutex::new(vec![vec![]; plan.replicas.len()]));
    for (k, (hs, ps)) in plan.replicas.iter().enumerate() {
        let descs = plan.descs.clone();
        let rejects = plan.rejects.clone();
        let outp = outp.clone();
        let (hs, ps) = (*hs, *ps);
        sim.spawn(&format!("replica{}", k), false, move |ctx| {
            set_hash_seed(hs);
            ctx.invoke(op_id(k, 0));
            let v: Vec<_> = descs
                .iter()
                .enumerate()
                .map(|(i, d)| {
                    for (_, bad) in rejects.iter().filter(|(at, _)| *at == i) {
                        let _ = build_desc(bad, ps ^ 0x5151 ^ i as u64);
                    }
                    build_desc(d, ps ^ i as u64)
                })
                .collect();
            ctx.ret(op_id(k, 0));
            outp.lock().unwrap()[k] = v;
        });
    }
    let res = sim.run();
    let mut out = base_out(&plan.env, &res);
    out.nontrivial = plan.descs.len() >= 2;
    for (t, p) in &res.panics {
        out.violations.push(Violation::new("C15/panic", "C15/panic", format!("thread {} panicked: {}", t, p)));
    }
    let reps = outp.lock().unwrap().clone();
    let first = &reps[0];
    for (k, rep) in reps.iter().enumerate().skip(1) {
        for (i, (a, b)) in first.iter().zip(rep.iter()).enumerate() {
            if a != b {
                out.violations.push(Violation::new("C15/order-independent", "C15/order-independent", format!("descriptor {:?} gets (id, dim_hash) {:?} under hash seed {} and {:?} under hash seed {} with labels inserted in another order", plan.descs[i], a, plan.replicas[0].0, b, plan.replicas[k].0)));
            }
        }
    }
    let mut eq_pairs = 0u64;
    for i in 0..plan.descs.len() {
        for j in i + 1..plan.descs.len() {
            if let (Ok((id1, dim1)), Ok((id2, dim2))) = (&first[i], &first[j]) {
                let (a, b) = (&plan.descs[i], &plan.descs[j]);
                let same_id = a.identity() == b.identity();
                let same_dim = a.dim() == b.dim();
                if same_id {
                    eq_pairs += 1;
                }
                if (id1 == id2) != same_id {
                    out.violations.push(Violation::new("C15/identity", "C15/identity", format!("descriptors {:?} and {:?}: ids {} but identities (name + constant values in label-name order) {}", a, b, if id1 == id2 { "equal" } else { "differ" }, if same_id { "equal" } else { "differ" })));
                }
                if (dim1 == dim2) != same_dim {
                    out.violations.push(Violation::new("C15/dimension", "C15/dimension", format!("descriptors {:?} and {:?}: dimension hashes {} but (help, constant names, variable names) {}", a, b, if dim1 == dim2 { "equal" } else { "differ" }, if same_dim { "equal" } else { "differ" })));
                }
            }
        }
    }
    let mut fp = crate::rng::Fp::default();
    fp.str(&serde_json::to_string(&(&plan.descs, &plan.rejects)).unwrap());
    out.signature = fp.0;
    out.probes.push(("refused_constructions_in_between", plan.rejects.len() as u64));
    out.probes.push(("pairs_with_equal_identity", eq_pairs));
    out.probes.push(("descriptors_built", first.iter().filter(|x| x.is_ok()).count() as u64));
    out.faults.push(("hash_seed_replicas", reps.len() as u64));
    out
}

pub struct C15;
impl Scenario for C15 {
    fn id(&self) -> &'static str {
        "C15"
    }
    fn name(&self) -> &'static str {
        "descriptor-identity"
    }
    fn runs(&self, tier: Tier) -> u64 {
        match tier {
            Tier::Quick => 80_000,
            Tier::Thorough => 2_000_000,
        }
    }
    fn gen(&self, seed: u64, _tier: Tier) -> Value {
        serde_json::to_value(gen_desc_plan(seed)).unwrap()
    }
    fn run(&self, plan: &Value, mode: Mode) -> RunOut {
        let plan: DescPlan = serde_json::from_value(plan.clone()).expect("C15 plan");
        let hs = plan.env.hash_seed;
        isolated(hs, move || execute_c15(&plan, mode))
    }
    fn shrink(&self, plan: &Value) -> Vec<Value> {
        let p: DescPlan = serde_json::from_value(plan.clone()).unwrap();
        let mut c = vec![];
        for i in 0..p.descs.len() {
            if p.descs.len() > 2 {
                let mut n = p.clone();
                n.descs.remove(i);
                n.rejects = n.rejects.into_iter().filter(|(at, _)| *at != i).map(|(at, b)| (if at > i { at - 1 } else { at }, b)).collect();
                c.push(n);
            }
        }
        for i in 0..p.rejects.len() {
            let mut n = p.clone();
            n.rejects.remove(i);
            c.push(n);
        }
        c.into_iter().map(|p| serde_json::to_value(p).unwrap()).collect()
    }
    fn info(&self) -> Info {
        Info {
            rule: "one run = 3-10 descriptors whose names and constant-label values are boundary-shifted splits of one string (plus label-shuffled duplicates and value-swapped twins), each built three times on fresh simulated threads under different hash seeds with constant labels inserted and variable labels listed in different orders; all pairs compared: id equal <=> structural identity equal, dim_hash equal <=> structural dimension equal, both invariant across replicas; non-trivial = >=2 descriptors; distinct = distinct descriptor lists",
            assumptions: vec!["equality is up to collisions of the 64-bit hash itself (none expected at this size)", "no threads interact: the simulator contributes the hash-seed seam and the insertion-order permutations only"],
            real: vec!["prometheus::core::Desc::new"],
            stubbed: vec!["OS randomness (hash seeds)"],
            expected_probes: vec!["pairs_with_equal_identity", "descriptors_built"],
        }
    }
}

// =============================================================================== C09
#[derive(Serialize, Deserialize, Clone, Debug, PartialEq)]
pub enum CKind {
    Counter,
    IntGauge,
    Histogram,
    CounterVec,
    HistogramVec,
    Desc,
    Pulling,
}
#[derive(Serialize, Deserialize, Clone, Debug, PartialEq)]
pub struct Creation {
    pub kind: CKind,
    pub namespace: String,
    pub subsystem: String,
    pub name: String,
    pub help: String,
    pub consts: Vec<(String, String)>,
    pub vars: Vec<String>,
    /// which of the equivalent builder routes constructs the options (0: Opts setters + From<Opts>;
    /// 1: one const_label call per label, HistogramOpts' own setters; 2: as 1 plus a junk variable
    /// label on the options that the vector constructor must override; 3: T::new(name, help) where possible)
    #[serde(default)]
    pub path: u8,
}
#[derive(Serialize, Deserialize, Clone, Debug)]
pub struct NamesPlan {
    pub env: Env,
    pub prefix: Option<String>,
    pub common: Vec<(String, String)>,
    pub creations: Vec<Creation>,
}

pub fn valid_metric_name(s: &str) -> bool {
    let mut it = s.chars();
    match it.next() {
        Some(c) if c.is_ascii_alphabetic() || c == '_' || c == ':' => it.all(|c| c.is_ascii_alphanumeric() || c == '_' || c == ':'),
        _ => false,
    }
}
pub fn valid_label_name(s: &str) -> bool {
    let mut it = s.chars();
    match it.next() {
        Some(c) if c.is_ascii_alphabetic() || c == '_' => it.all(|c| c.is_ascii_alphanumeric() || c == '_'),
        _ => false,
    }
}
fn fq_name(c: &Creation) -> String {
    if c.name.is_empty() {
        return String::new();
    }
    let mut parts = vec![];
    if !c.namespace.is_empty() {
        parts.push(c.namespace.as_str());
    }
    if !c.subsystem.is_empty() {
        parts.push(c.subsystem.as_str());
    }
    parts.push(c.name.as_str());
    parts.join("_")
}
/// The statement's acceptance rule.
pub fn model_accepts(c: &Creation) -> bool {
    let is_hist = matches!(c.kind, CKind::Histogram | CKind::HistogramVec);
    let fq = if matches!(c.kind, CKind::Desc | CKind::Pulling) { c.name.clone() } else { fq_name(c) };
    if !valid_metric_name(&fq) || c.help.is_empty() {
        return false;
    }
    let mut seen = BTreeSet::new();
    let consts: Vec<&String> = if c.kind == CKind::Pulling { vec![] } else { c.consts.iter().map(|(k, _)| k).collect() };
    let vars: Vec<&String> = if matches!(c.kind, CKind::CounterVec | CKind::HistogramVec | CKind::Desc) { c.vars.iter().collect() } else { vec![] };
    for n in consts.iter().chain(vars.iter()) {
        if !valid_label_name(n) || !seen.insert((*n).clone()) {
            return false;
        }
        if is_hist && n.as_str() == "le" {
            return false;
        }
    }
    true
}

const NAME_POOL: &[&str] = &["m", "req_total", "a:b", ":x", "_y", "é", "mé", "9m", "m9", "", "m-1", "m 1", "M", "ｍ", "m\u{301}", "٣x", "x٣"];
// ("a:b", ":x" and "m9" are also in NAME_POOL: a string that was accepted as a metric name earlier on
// the same thread must still be refused as a label name if it is not one)
const LABEL_POOL: &[&str] = &["l", "le", "a", "a_1", "_a", "1a", "", "l:1", "é", "lé", "l-1", "L", "le ", "٣", "a٣", "__n", ":", "a:", ":a", "a.b", "a\u{0}", "a:b", ":x", "a:b", "m9", "$l", "$a", "$"];
const HELP_POOL: &[&str] = &["help", "", " ", "h\nh"];

fn gen_creation(r: &mut Rng) -> Creation {
    let kind = r.pick(&[CKind::Counter, CKind::IntGauge, CKind::Histogram, CKind::CounterVec, CKind::HistogramVec, CKind::Desc, CKind::Pulling]).clone();
    let mostly_ok = |r: &mut Rng, pool: &[&str], ok: &[&str]| if r.chance(70) { r.pick(ok).to_string() } else { r.pick(pool).to_string() };
    let namespace = if r.chance(70) { String::new() } else { mostly_ok(r, NAME_POOL, &["ns", "n:s"]) };
    let subsystem = if r.chance(70) { String::new() } else { mostly_ok(r, NAME_POOL, &["sub"]) };
    let name = mostly_ok(r, NAME_POOL, &["m", "req_total", "a:b", "_y", "M", "m9"]);
    let help = if r.chance(85) { "help".to_string() } else { r.pick(HELP_POOL).to_string() };
    let nc = r.below(3) as usize;
    let mut consts: Vec<(String, String)> = vec![];
    for _ in 0..nc {
        let k = mostly_ok(r, LABEL_POOL, &["l", "a", "a_1", "_a", "L", "k"]);
        if !consts.iter().any(|(x, _)| *x == k) {
            // (different values let several metrics share one name)
            consts.push((k, r.pick(&["v", "v", "w"]).to_string()));
        }
    }
    let span = if r.chance(25) { 5 } else { 2 };
    let nv = if matches!(kind, CKind::CounterVec | CKind::HistogramVec | CKind::Desc) { 1 + r.below(span) as usize } else { 0 };
    let mut vars = vec![];
    for _ in 0..nv {
        vars.push(mostly_ok(r, LABEL_POOL, &["l", "a", "a_1", "_a", "L", "w"]));
    }
    if nv >= 3 && r.chance(40) {
        // a repeat that is not adjacent (first and last)
        let first = vars[0].clone();
        *vars.last_mut().unwrap() = first;
    }
    let path = r.below(4) as u8;
    Creation { kind, namespace, subsystem, name, help, consts, vars, path }
}

fn gen_names_plan(seed: u64) -> NamesPlan {
    let mut r = Rng::new(seed, 1);
    let n = 2 + r.below(5) as usize;
    let creations = (0..n).map(|_| gen_creation(&mut r)).collect();
    let prefix = match r.below(10) {
        0..=4 => None,
        5..=7 => Some(r.pick(&["p", "pre:fix", "_p"]).to_string()),
        _ => Some(r.pick(&["9p", "p-x", "é", "p q", ""]).to_string()),
    };
    let ncommon = r.below(3) as usize;
    let mut common = vec![];
    for _ in 0..ncommon {
        let k = if r.chance(65) { r.pick(&["zone", "dc", "z_1"]).to_string() } else { r.pick(&["l", "a", "9 bad", "é", "", "le", "w", "dc:zone", ":", "a:b", "_:", "z1:"]).to_string() };
        if !common.iter().any(|(x, _): &(String, String)| *x == k) {
            common.push((k, "cv".to_string()));
        }
    }
    NamesPlan { env: Env::basic(r.next()), prefix, common, creations }
}

fn create(c: &Creation) -> std::result::Result<Option<Box<dyn Collector>>, String> {
    let mut consts = HashMap::new();
    for (k, v) in &c.consts {
        consts.insert(k.clone(), v.clone());
    }
    let is_vec = matches!(c.kind, CKind::CounterVec | CKind::HistogramVec);
    let mut opts = Opts::new(c.name.clone(), c.help.clone()).namespace(c.namespace.clone()).subsystem(c.subsystem.clone());
    let mut hopts = HistogramOpts::new(c.name.clone(), c.help.clone()).namespace(c.namespace.clone()).subsystem(c.subsystem.clone());
    if c.path == 0 {
        opts = opts.const_labels(consts.clone());
        hopts = HistogramOpts::from(opts.clone());
    } else {
        for (k, v) in c.consts.iter().rev() {
            opts = opts.const_label(k.clone(), v.clone());
            hopts = hopts.const_label(k.clone(), v.clone());
        }
        if c.path == 2 && is_vec {
            opts = opts.variable_label("zz_junk");
            hopts = hopts.variable_label("zz_junk");
        }
    }
    let hopts = hopts.buckets(vec![1.0]);
    let expect_fq = {
        let parts: Vec<&str> = [c.namespace.as_str(), c.subsystem.as_str(), c.name.as_str()].into_iter().filter(|s| !s.is_empty()).collect();
        if c.name.is_empty() { String::new() } else { parts.join("_") }
    };
    if opts.fq_name() != expect_fq || hopts.fq_name() != expect_fq {
        return Err(format!("\u{1}fq_name: Opts {:?} / HistogramOpts {:?}, expected {:?}", opts.fq_name(), hopts.fq_name(), expect_fq));
    }
    let plain = c.path == 3 && c.namespace.is_empty() && c.subsystem.is_empty() && c.consts.is_empty();
    let names: Vec<&str> = c.vars.iter().map(|s| s.as_str()).collect();
    let e = |e: Error| e.to_string();
    Ok(Some(match c.kind {
        CKind::Counter => {
            let m = if plain { Counter::new(c.name.clone(), c.help.clone()) } else { Counter::with_opts(opts) }.map_err(e)?;
            m.inc();
            Box::new(m)
        }
        CKind::IntGauge => {
            let m = if plain { IntGauge::new(c.name.clone(), c.help.clone()) } else { IntGauge::with_opts(opts) }.map_err(e)?;
            m.set(3);
            Box::new(m)
        }
        CKind::Histogram => {
            let m = Histogram::with_opts(hopts).map_err(e)?;
            m.observe(0.5);
            Box::new(m)
        }
        CKind::CounterVec => {
            let m = CounterVec::new(opts, &names).map_err(e)?;
            let vals: Vec<&str> = names.iter().map(|_| "x").collect();
            m.get_metric_with_label_values(&vals).map_err(e)?.inc();
            Box::new(m)
        }
        CKind::HistogramVec => {
            let m = HistogramVec::new(hopts, &names).map_err(e)?;
            let vals: Vec<&str> = names.iter().map(|_| "x").collect();
            m.get_metric_with_label_values(&vals).map_err(e)?.observe(0.5);
            Box::new(m)
        }
        CKind::Desc => {
            Desc::new(c.name.clone(), c.help.clone(), c.vars.clone(), consts).map_err(e)?;
            return Ok(None);
        }
        CKind::Pulling => Box::new(PullingGauge::new(c.name.clone(), c.help.clone(), Box::new(|| 1.0)).map_err(e)?),
    }))
}

fn execute_c09(plan: &NamesPlan, mode: Mode) -> RunOut {
    let sim = new_sim(&plan.env, mode);
    let viol: Arc<Mutex<Vec<Violation>>> = Arc::new(Mutex::new(vec![]));
    let stats: Arc<Mutex<(u64, u64, u64)>> = Arc::new(Mutex::new((0, 0, 0)));
    {
        let plan = plan.clone();
        let viol = viol.clone();
        let stats = stats.clone();
        sim.spawn("names", false, move |ctx| {
            ctx.invoke(0);
            let mut labels = HashMap::new();
            for (a, b) in &plan.common {
                labels.insert(a.clone(), b.clone());
            }
            let custom = plan.prefix.is_some() || !plan.common.is_empty();
            let reg = if custom { Registry::new_custom(plan.prefix.clone(), if plan.common.is_empty() { None } else { Some(labels) }) } else { Ok(Registry::new()) };
            let mut v = vec![];
            let mut registered: Vec<&Creation> = vec![];
            for c in &plan.creations {
                let want = model_accepts(c);
                match crate::seams::catch(|| create(c)) {
                    Err(p) => v.push(Violation::new("C09/panic", "C09/panic", format!("constructor panicked for {:?}: {}", c, p))),
                    Ok(Err(m)) if m.starts_with('\u{1}') => v.push(Violation::new("C09/fq-name", "C09/fq-name", format!("{:?}: {}", c, &m[1..]))),
                    Ok(got) => {
                        if got.is_ok() != want {
                            let why = if want { "rejected a well-formed" } else { "accepted a malformed" };
                            let dup = {
                                let mut s = BTreeSet::new();
                                c.consts.iter().map(|(k, _)| k).chain(c.vars.iter()).any(|k| !s.insert(k.clone()))
                            };
                            let key = if !want && dup && matches!(c.kind, CKind::CounterVec | CKind::HistogramVec | CKind::Desc) { "C09/constructor:variable-label-repeats-constant-label" } else { "C09/constructor" };
                            v.push(Violation::new("C09/constructor", key, format!("constructor {} description: {:?} -> {:?}", why, c, got.as_ref().map(|_| "Ok").map_err(|e| e.clone()))));
                        }
                        stats.lock().unwrap().0 += 1;
                        if !want {
                            stats.lock().unwrap().1 += 1;
                        }
                        if let (Ok(Some(col)), Ok(reg)) = (got, &reg) {
                            if reg.register(col).is_ok() {
                                registered.push(c);
                            }
                        }
                    }
                }
            }
            if let Ok(reg) = &reg {
                let fams = compat::families_of(&reg.gather());
                stats.lock().unwrap().2 += fams.len() as u64;
                for f in &fams {
                    let name = f.name.clone().unwrap_or_default();
                    let prefix_bad = plan.prefix.as_ref().map(|p| !valid_metric_name(p)).unwrap_or(false);
                    if !valid_metric_name(&name) {
                        let key = if prefix_bad { "C09/exposed-name:malformed-registry-prefix" } else { "C09/exposed-name" };
                        v.push(Violation::new("C09/exposed", key, format!("gather() exposes the metric name {:?} (registry prefix {:?})", name, plan.prefix)));
                    }
                    for m in &f.metrics {
                        let mut seen = BTreeSet::new();
                        for (k, _) in &m.labels {
                            if k == "zz_junk" {
                                v.push(Violation::new("C09/exposed", "C09/exposed-label:options-variable-label-not-overridden", format!("{:?} carries a variable label set on the options although the vector was built with its own label names", name)));
                            }
                            let from_common = plan.common.iter().any(|(c, _)| c == k);
                            if !valid_label_name(k) {
                                let key = if from_common { "C09/exposed-label:malformed-registry-label" } else { "C09/exposed-label" };
                                v.push(Violation::new("C09/exposed", key, format!("gather() exposes the label name {:?} on {:?} (registry labels {:?})", k, name, plan.common)));
                            }
                            if !seen.insert(k.clone()) {
                                // the recorded finding is the CLASH: the metric itself carries a label of that name
                                let exposed_name = |c: &Creation| {
                                    let parts: Vec<&str> = [c.namespace.as_str(), c.subsystem.as_str(), c.name.as_str()].into_iter().filter(|s| !s.is_empty()).collect();
                                    match &plan.prefix {
                                        Some(p) => format!("{}_{}", p, parts.join("_")),
                                        None => parts.join("_"),
                                    }
                                };
                                let own = registered.iter().filter(|c| exposed_name(c) == name).any(|c| c.consts.iter().any(|(n, _)| n == k) || c.vars.iter().any(|n| n == k));
                                let key = if from_common && own { "C09/exposed-duplicate:registry-label-clashes-with-metric-label" } else { "C09/exposed-duplicate" };
                                v.push(Violation::new("C09/exposed", key, format!("gather() exposes the label name {:?} twice on a sample of {:?}: {:?} (registry labels {:?})", k, name, m.labels, plan.common)));
                            }
                        }
                    }
                }
            }
            ctx.ret(0);
            viol.lock().unwrap().extend(v);
        });
    }
    let res = sim.run();
    let mut out = base_out(&plan.env, &res);
    out.nontrivial = plan.creations.len() >= 2;
    for (t, p) in &res.panics {
        out.violations.push(Violation::new("C09/panic", "C09/panic", format!("thread {} panicked: {}", t, p)));
    }
    out.violations.extend(viol.lock().unwrap().drain(..));
    let st = stats.lock().unwrap();
    let mut fp = crate::rng::Fp::default();
    fp.str(&serde_json::to_string(&(&plan.creations, &plan.prefix, &plan.common)).unwrap());
    out.signature = fp.0;
    out.probes.push(("constructor_calls", st.0));
    out.probes.push(("malformed_descriptions", st.1));
    out.probes.push(("families_gathered", st.2));
    out.probes.push(("custom_registry", (plan.prefix.is_some() || !plan.common.is_empty()) as u64));
    out
}

pub struct C09;
impl Scenario for C09 {
    fn id(&self) -> &'static str {
        "C09"
    }
    fn name(&self) -> &'static str {
        "names"
    }
    fn runs(&self, tier: Tier) -> u64 {
        match tier {
            Tier::Quick => 120_000,
            Tier::Thorough => 3_000_000,
        }
    }
    fn gen(&self, seed: u64, _tier: Tier) -> Value {
        serde_json::to_value(gen_names_plan(seed)).unwrap()
    }
    fn run(&self, plan: &Value, mode: Mode) -> RunOut {
        let plan: NamesPlan = serde_json::from_value(plan.clone()).expect("C09 plan");
        let hs = plan.env.hash_seed;
        isolated(hs, move || execute_c09(&plan, mode))
    }
    fn shrink(&self, plan: &Value) -> Vec<Value> {
        let p: NamesPlan = serde_json::from_value(plan.clone()).unwrap();
        let mut c = vec![];
        for i in 0..p.creations.len() {
            if p.creations.len() > 1 {
                let mut n = p.clone();
                n.creations.remove(i);
                c.push(n);
            }
        }
        if p.prefix.is_some() {
            let mut n = p.clone();
            n.prefix = None;
            c.push(n);
        }
        for i in 0..p.common.len() {
            let mut n = p.clone();
            n.common.remove(i);
            c.push(n);
        }
        for i in 0..p.creations.len() {
            let cr = &p.creations[i];
            if !cr.namespace.is_empty() {
                let mut n = p.clone();
                n.creations[i].namespace = String::new();
                c.push(n);
            }
            if !cr.subsystem.is_empty() {
                let mut n = p.clone();
                n.creations[i].subsystem = String::new();
                c.push(n);
            }
            for j in 0..cr.consts.len() {
                let mut n = p.clone();
                n.creations[i].consts.remove(j);
                c.push(n);
            }
        }
        c.into_iter().map(|p| serde_json::to_value(p).unwrap()).collect()
    }
    fn info(&self) -> Info {
        Info {
            rule: "one run = 2-6 metric / vector / Desc / PullingGauge constructions whose namespace, subsystem, name, help, constant and variable label names are drawn from pools with ASCII and non-ASCII letters and digits, empty strings, leading digits, punctuation, 'le' and duplicates, plus a registry with a random (possibly malformed or clashing) prefix and common labels; every constructor decision is compared with the statement's acceptance rule and every gather() is monitored for valid metric names and valid, pairwise distinct label names; non-trivial = >=2 constructions; distinct = distinct (constructions, prefix, common labels)",
            assumptions: vec!["group C: validation is a function of its input; the simulator contributes the generated configurations and the registry they end up in"],
            real: vec!["all metric constructors, Desc::new, Registry::new_custom, Registry::gather"],
            stubbed: vec!["OS randomness (hash seeds)"],
            expected_probes: vec!["constructor_calls", "malformed_descriptions", "families_gathered", "custom_registry"],
        }
    }
}
