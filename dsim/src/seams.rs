//! Seams that need no change in /repo: OS randomness (hash seeds), the `Write` sink,
//! panic capture.
use crate::rng::Rng;
use std::cell::{Cell, RefCell};
use std::io::{self, Write};

thread_local! {
    static HSEED: Cell<u64> = const { Cell::new(0x5eed_1234) };
    static HCALLS: Cell<u64> = const { Cell::new(0) };
    static PANIC_LOC: RefCell<String> = const { RefCell::new(String::new()) };
}

pub fn set_hash_seed(s: u64) {
    HSEED.with(|c| c.set(s));
    HCALLS.with(|c| c.set(0));
}

/// Fills `buf` from the calling thread's hash seed (deterministic).
pub unsafe fn fill_random(buf: *mut u8, len: usize) {
    let seed = HSEED.try_with(|s| s.get()).unwrap_or(0x5eed_1234);
    let n = HCALLS
        .try_with(|c| {
            let v = c.get();
            c.set(v + 1);
            v
        })
        .unwrap_or(0);
    let mut r = Rng::new(seed, 99 + n);
    for i in 0..len {
        *buf.add(i) = r.next() as u8;
    }
}

/// std resolves its weak `getrandom` symbol to a definition in the final binary, so `RandomState`
/// keys (drawn once per OS thread) derive from the run seed. The symbol must be defined in the
/// binary crate itself (an rlib member is not pulled in by a weak reference).
#[macro_export]
macro_rules! define_getrandom {
    () => {
        #[no_mangle]
        pub unsafe extern "C" fn getrandom(buf: *mut libc::c_void, len: libc::size_t, _flags: libc::c_uint) -> libc::ssize_t {
            $crate::seams::fill_random(buf as *mut u8, len);
            len as libc::ssize_t
        }
    };
}

/// Self-test of the seam: iteration order of a std HashMap created on a fresh thread with the
/// given hash seed.
pub fn hash_order_probe(seed: u64) -> Vec<u32> {
    std::thread::spawn(move || {
        set_hash_seed(seed);
        let mut m = std::collections::HashMap::new();
        for i in 0..16u32 {
            m.insert(i, ());
        }
        m.keys().copied().collect::<Vec<_>>()
    })
    .join()
    .unwrap()
}

pub fn install_panic_hook() {
    std::panic::set_hook(Box::new(|info| {
        let loc = info.location().map(|l| format!("{}:{}", l.file(), l.line())).unwrap_or_default();
        let _ = PANIC_LOC.try_with(|p| *p.borrow_mut() = loc);
    }));
}
pub fn take_panic_location() -> String {
    PANIC_LOC.try_with(|p| std::mem::take(&mut *p.borrow_mut())).unwrap_or_default()
}

/// Run `f`, turning a panic into Err(message @ location).
pub fn catch<T>(f: impl FnOnce() -> T) -> Result<T, String> {
    match std::panic::catch_unwind(std::panic::AssertUnwindSafe(f)) {
        Ok(v) => Ok(v),
        Err(e) => {
            let msg = e.downcast_ref::<String>().cloned().or_else(|| e.downcast_ref::<&str>().map(|s| s.to_string())).unwrap_or_else(|| "<non-string panic>".into());
            Err(format!("{} @ {}", msg, take_panic_location()))
        }
    }
}

// ------------------------------------------------------------------ Write sink
#[derive(Clone, Debug, serde::Serialize, serde::Deserialize, PartialEq)]
pub struct WriterPlan {
    /// per write() call: chance in percent of accepting only a prefix
    pub short_pct: u32,
    /// per write() call: chance in percent of returning ErrorKind::Interrupted
    pub eintr_pct: u32,
    /// hard error once this many bytes were accepted
    pub fail_at: Option<u64>,
    pub seed: u64,
}
impl WriterPlan {
    pub fn clean() -> WriterPlan {
        WriterPlan { short_pct: 0, eintr_pct: 0, fail_at: None, seed: 0 }
    }
}

pub struct FaultyWriter {
    pub out: Vec<u8>,
    plan: WriterPlan,
    rng: Rng,
    pub short_writes: u64,
    pub eintrs: u64,
    pub hard_errors: u64,
    pub calls: u64,
    consecutive_eintr: u32,
}
impl FaultyWriter {
    pub fn new(plan: WriterPlan) -> FaultyWriter {
        let rng = Rng::new(plan.seed, 41);
        FaultyWriter { out: vec![], plan, rng, short_writes: 0, eintrs: 0, hard_errors: 0, calls: 0, consecutive_eintr: 0 }
    }
}
impl Write for FaultyWriter {
    fn write(&mut self, buf: &[u8]) -> io::Result<usize> {
        self.calls += 1;
        if buf.is_empty() {
            return Ok(0);
        }
        if let Some(k) = self.plan.fail_at {
            if self.out.len() as u64 >= k {
                self.hard_errors += 1;
                return Err(io::Error::new(io::ErrorKind::Other, "injected write error"));
            }
        }
        if self.consecutive_eintr < 3 && self.rng.chance(self.plan.eintr_pct as u64) {
            self.eintrs += 1;
            self.consecutive_eintr += 1;
            return Err(io::Error::new(io::ErrorKind::Interrupted, "injected EINTR"));
        }
        self.consecutive_eintr = 0;
        let mut n = buf.len();
        if n > 1 && self.rng.chance(self.plan.short_pct as u64) {
            n = 1 + self.rng.below(n as u64 - 1) as usize;
            self.short_writes += 1;
        }
        if let Some(k) = self.plan.fail_at {
            let room = (k - self.out.len() as u64) as usize;
            if n > room {
                n = room.max(1).min(n);
                if room == 0 {
                    self.hard_errors += 1;
                    return Err(io::Error::new(io::ErrorKind::Other, "injected write error"));
                }
            }
        }
        self.out.extend_from_slice(&buf[..n]);
        Ok(n)
    }
    fn flush(&mut self) -> io::Result<()> {
        Ok(())
    }
}
