//! Canonical, model-independent view of gathered families. Accessor names differ between the
//! protobuf-backed data model and the plain one; everything else in dsim uses this view.
#![allow(deprecated)]
use prometheus::proto;
use serde::{Deserialize, Serialize};

#[derive(Clone, Copy, Debug, PartialEq, Eq, Serialize, Deserialize, PartialOrd, Ord)]
pub enum PType {
    Counter,
    Gauge,
    Summary,
    Untyped,
    Histogram,
}

/// f64 values are stored as bit patterns in plans/replay files (JSON has no NaN / infinity).
pub mod fbits {
    use serde::{Deserialize, Deserializer, Serialize, Serializer};
    pub fn enc(v: f64) -> String {
        if v.is_finite() && v.to_string().parse::<f64>().map(|x| x.to_bits() == v.to_bits()).unwrap_or(false) {
            v.to_string()
        } else {
            format!("bits:{:016x}", v.to_bits())
        }
    }
    pub fn dec(s: &str) -> Result<f64, String> {
        match s.strip_prefix("bits:") {
            Some(h) => u64::from_str_radix(h, 16).map(f64::from_bits).map_err(|e| e.to_string()),
            None => s.parse::<f64>().map_err(|e| e.to_string()),
        }
    }
    pub fn serialize<S: Serializer>(v: &f64, s: S) -> Result<S::Ok, S::Error> {
        enc(*v).serialize(s)
    }
    pub fn deserialize<'de, D: Deserializer<'de>>(d: D) -> Result<f64, D::Error> {
        dec(&String::deserialize(d)?).map_err(serde::de::Error::custom)
    }
    pub mod opt {
        use serde::{Deserialize, Deserializer, Serialize, Serializer};
        pub fn serialize<S: Serializer>(v: &Option<f64>, s: S) -> Result<S::Ok, S::Error> {
            v.map(super::enc).serialize(s)
        }
        pub fn deserialize<'de, D: Deserializer<'de>>(d: D) -> Result<Option<f64>, D::Error> {
            match Option::<String>::deserialize(d)? {
                Some(x) => super::dec(&x).map(Some).map_err(serde::de::Error::custom),
                None => Ok(None),
            }
        }
    }
    pub mod pairs_fu {
        use serde::{Deserialize, Deserializer, Serialize, Serializer};
        pub fn serialize<S: Serializer>(v: &Vec<(f64, u64)>, s: S) -> Result<S::Ok, S::Error> {
            v.iter().map(|(a, b)| (super::enc(*a), *b)).collect::<Vec<_>>().serialize(s)
        }
        pub fn deserialize<'de, D: Deserializer<'de>>(d: D) -> Result<Vec<(f64, u64)>, D::Error> {
            let v: Vec<(String, u64)> = Vec::deserialize(d)?;
            v.into_iter().map(|(a, b)| super::dec(&a).map(|a| (a, b)).map_err(serde::de::Error::custom)).collect()
        }
    }
    pub mod pairs_ff {
        use serde::{Deserialize, Deserializer, Serialize, Serializer};
        pub fn serialize<S: Serializer>(v: &Vec<(f64, f64)>, s: S) -> Result<S::Ok, S::Error> {
            v.iter().map(|(a, b)| (super::enc(*a), super::enc(*b))).collect::<Vec<_>>().serialize(s)
        }
        pub fn deserialize<'de, D: Deserializer<'de>>(d: D) -> Result<Vec<(f64, f64)>, D::Error> {
            let v: Vec<(String, String)> = Vec::deserialize(d)?;
            v.into_iter().map(|(a, b)| Ok((super::dec(&a).map_err(serde::de::Error::custom)?, super::dec(&b).map_err(serde::de::Error::custom)?))).collect()
        }
    }
    pub mod list {
        use serde::{Deserialize, Deserializer, Serialize, Serializer};
        pub fn serialize<S: Serializer>(v: &Vec<f64>, s: S) -> Result<S::Ok, S::Error> {
            v.iter().map(|a| super::enc(*a)).collect::<Vec<_>>().serialize(s)
        }
        pub fn deserialize<'de, D: Deserializer<'de>>(d: D) -> Result<Vec<f64>, D::Error> {
            let v: Vec<String> = Vec::deserialize(d)?;
            v.into_iter().map(|a| super::dec(&a).map_err(serde::de::Error::custom)).collect()
        }
    }
}

#[derive(Clone, Debug, PartialEq, Serialize, Deserialize)]
pub struct PHist {
    pub count: u64,
    #[serde(with = "fbits")]
    pub sum: f64,
    /// (upper bound, cumulative count)
    #[serde(with = "fbits::pairs_fu")]
    pub buckets: Vec<(f64, u64)>,
}
#[derive(Clone, Debug, PartialEq, Serialize, Deserialize)]
pub struct PSummary {
    pub count: u64,
    #[serde(with = "fbits")]
    pub sum: f64,
    #[serde(with = "fbits::pairs_ff")]
    pub quantiles: Vec<(f64, f64)>,
}
#[derive(Clone, Debug, PartialEq, Serialize, Deserialize, Default)]
pub struct PMetric {
    pub labels: Vec<(String, String)>,
    pub ts: i64,
    /// the timestamp is set explicitly even if it is zero (a custom collector may do that)
    #[serde(default)]
    pub ts_set: bool,
    #[serde(with = "fbits::opt")]
    pub counter: Option<f64>,
    #[serde(with = "fbits::opt")]
    pub gauge: Option<f64>,
    #[serde(with = "fbits::opt")]
    pub untyped: Option<f64>,
    pub hist: Option<PHist>,
    pub summary: Option<PSummary>,
}

/// Equality of floats as the exposition formats preserve them: NaN equals NaN (class), everything
/// else bit for bit (so -0.0 differs from 0.0). `exact_nan` also compares NaN payload bits.
pub fn feq(a: f64, b: f64, exact_nan: bool) -> bool {
    if a.is_nan() && b.is_nan() && !exact_nan {
        true
    } else {
        a.to_bits() == b.to_bits()
    }
}
#[derive(Clone, Debug, PartialEq, Serialize, Deserialize)]
pub struct PFamily {
    pub name: Option<String>,
    pub help: Option<String>,
    pub typ: PType,
    pub metrics: Vec<PMetric>,
}

pub fn ptype(t: proto::MetricType) -> PType {
    match t {
        proto::MetricType::COUNTER => PType::Counter,
        proto::MetricType::GAUGE => PType::Gauge,
        proto::MetricType::SUMMARY => PType::Summary,
        proto::MetricType::UNTYPED => PType::Untyped,
        proto::MetricType::HISTOGRAM => PType::Histogram,
    }
}
pub fn mtype(t: PType) -> proto::MetricType {
    match t {
        PType::Counter => proto::MetricType::COUNTER,
        PType::Gauge => proto::MetricType::GAUGE,
        PType::Summary => proto::MetricType::SUMMARY,
        PType::Untyped => proto::MetricType::UNTYPED,
        PType::Histogram => proto::MetricType::HISTOGRAM,
    }
}

fn hist_of(h: &proto::Histogram) -> PHist {
    PHist { count: h.get_sample_count(), sum: h.get_sample_sum(), buckets: h.get_bucket().iter().map(|b| (b.upper_bound(), b.cumulative_count())).collect() }
}
fn summary_of(s: &proto::Summary) -> PSummary {
    PSummary { count: s.sample_count(), sum: s.sample_sum(), quantiles: s.get_quantile().iter().map(|q| (q.quantile(), q.value())).collect() }
}

/// Whether payload presence is observable in this data model.
pub const HAS_PRESENCE: bool = cfg!(feature = "pb");

#[cfg(feature = "pb")]
pub fn metric_of(m: &proto::Metric, _t: PType) -> PMetric {
    PMetric {
        labels: m.get_label().iter().map(|l| (l.name().to_string(), l.value().to_string())).collect(),
        ts: m.timestamp_ms(),
        ts_set: false,
        counter: m.counter.as_ref().map(|c| c.value()),
        gauge: m.gauge.as_ref().map(|c| c.value()),
        untyped: m.untyped.as_ref().map(|c| c.value()),
        hist: m.histogram.as_ref().map(hist_of),
        summary: m.summary.as_ref().map(summary_of),
    }
}
#[cfg(not(feature = "pb"))]
pub fn metric_of(m: &proto::Metric, t: PType) -> PMetric {
    let mut p = PMetric { labels: m.get_label().iter().map(|l| (l.name().to_string(), l.value().to_string())).collect(), ts: m.timestamp_ms(), ..Default::default() };
    match t {
        PType::Counter => p.counter = Some(m.get_counter().get_value()),
        PType::Gauge => p.gauge = Some(m.get_gauge().get_value()),
        PType::Untyped => p.untyped = Some(m.get_untyped().get_value()),
        PType::Histogram => p.hist = Some(hist_of(m.get_histogram())),
        PType::Summary => p.summary = Some(summary_of(m.get_summary())),
    }
    p
}

/// All payload values regardless of type (plain model has no presence; this reads every slot).
pub fn raw_values(m: &proto::Metric) -> (f64, f64) {
    #[cfg(feature = "pb")]
    {
        (m.counter.as_ref().map(|c| c.value()).unwrap_or(0.0), m.gauge.as_ref().map(|c| c.value()).unwrap_or(0.0))
    }
    #[cfg(not(feature = "pb"))]
    {
        (m.get_counter().get_value(), m.get_gauge().get_value())
    }
}

pub fn family_of(mf: &proto::MetricFamily) -> PFamily {
    let t = ptype(mf.get_field_type());
    #[cfg(feature = "pb")]
    let (name, help) = (mf.name.clone(), mf.help.clone());
    #[cfg(not(feature = "pb"))]
    let (name, help) = (Some(mf.name().to_string()), Some(mf.help().to_string()));
    PFamily { name, help, typ: t, metrics: mf.get_metric().iter().map(|m| metric_of(m, t)).collect() }
}
pub fn families_of(mfs: &[proto::MetricFamily]) -> Vec<PFamily> {
    mfs.iter().map(family_of).collect()
}

pub fn to_proto(f: &PFamily) -> proto::MetricFamily {
    let mut mf = proto::MetricFamily::default();
    if let Some(n) = &f.name {
        mf.set_name(n.clone());
    }
    if let Some(h) = &f.help {
        mf.set_help(h.clone());
    }
    mf.set_field_type(mtype(f.typ));
    let mut ms = vec![];
    for pm in &f.metrics {
        let mut m = proto::Metric::default();
        let mut lps = vec![];
        for (k, v) in &pm.labels {
            let mut lp = proto::LabelPair::default();
            lp.set_name(k.clone());
            lp.set_value(v.clone());
            lps.push(lp);
        }
        m.set_label(lps);
        if pm.ts != 0 || pm.ts_set {
            m.set_timestamp_ms(pm.ts);
        }
        if let Some(v) = pm.counter {
            let mut c = proto::Counter::default();
            c.set_value(v);
            m.set_counter(c);
        }
        if let Some(v) = pm.gauge {
            let mut c = proto::Gauge::default();
            c.set_value(v);
            m.set_gauge(c);
        }
        if let Some(v) = pm.untyped {
            let mut c = proto::Untyped::default();
            c.set_value(v);
            #[cfg(feature = "pb")]
            {
                m.untyped = Some(c).into();
            }
            #[cfg(not(feature = "pb"))]
            m.set_untyped(c);
        }
        if let Some(h) = &pm.hist {
            let mut ph = proto::Histogram::default();
            ph.set_sample_count(h.count);
            ph.set_sample_sum(h.sum);
            let mut bs = vec![];
            for (ub, cc) in &h.buckets {
                let mut b = proto::Bucket::default();
                b.set_upper_bound(*ub);
                b.set_cumulative_count(*cc);
                bs.push(b);
            }
            ph.set_bucket(bs);
            m.set_histogram(ph);
        }
        if let Some(s) = &pm.summary {
            let mut ps = proto::Summary::default();
            ps.set_sample_count(s.count);
            ps.set_sample_sum(s.sum);
            let mut qs = vec![];
            for (q, v) in &s.quantiles {
                let mut pq = proto::Quantile::default();
                pq.set_quantile(*q);
                pq.set_value(*v);
                qs.push(pq);
            }
            ps.set_quantile(qs);
            m.set_summary(ps);
        }
        ms.push(m);
    }
    mf.set_metric(ms);
    mf
}

/// Counter value of the only metric of the only family (helper for simple collectors).
pub fn single_value(mfs: &[proto::MetricFamily]) -> Option<f64> {
    let f = family_of(mfs.first()?);
    let m = f.metrics.first()?;
    m.counter.or(m.gauge)
}

/// Model-independent rendering of gathered families: every value is read through the accessor of
/// the family's declared type (what TextEncoder does), so the string is comparable between the
/// protobuf-backed and the plain data model.
pub fn typed_dump(mfs: &[proto::MetricFamily]) -> String {
    let mut out = String::new();
    for mf in mfs {
        let t = ptype(mf.get_field_type());
        out.push_str(&format!("F {:?} {:?} {:?}\n", mf.name(), mf.help(), t));
        for m in mf.get_metric() {
            let labels: Vec<(String, String)> = m.get_label().iter().map(|l| (l.name().to_string(), l.value().to_string())).collect();
            out.push_str(&format!(" M {:?} ts={}", labels, m.timestamp_ms()));
            match t {
                PType::Counter | PType::Gauge => {
                    let (c, g) = raw_values(m);
                    out.push_str(&format!(" v={}", fbits::enc(if t == PType::Counter { c } else { g })));
                }
                PType::Histogram => {
                    let h = hist_of(m.get_histogram());
                    out.push_str(&format!(" count={} sum={} buckets={:?}", h.count, fbits::enc(h.sum), h.buckets.iter().map(|b| (fbits::enc(b.0), b.1)).collect::<Vec<_>>()));
                }
                PType::Summary => {
                    let s = summary_of(m.get_summary());
                    out.push_str(&format!(" count={} sum={} q={:?}", s.count, fbits::enc(s.sum), s.quantiles.iter().map(|b| (fbits::enc(b.0), fbits::enc(b.1))).collect::<Vec<_>>()));
                }
                PType::Untyped => {}
            }
            out.push('\n');
        }
    }
    out
}
