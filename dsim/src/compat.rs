//! Canonical, model-independent view of gathered families. Accessor names differ between the
//! protobuf-backed data model and the plain one; everything else in dsim uses this view.
#![allow(deprecated)]
use prometheus::proto;
use serde::{Deserialize, Serialize};

#[derive(Clone, Copy, Debug, PartialEq, Eq, Serialize, Deserialize, PartialOrd, Ord)]
pub enum PType {
    Counter,
    Gauge,
    Summary,
    Untyped,
    Histogram,
}

#[derive(Clone, Debug, PartialEq, Serialize, Deserialize)]
pub struct PHist {
    pub count: u64,
    pub sum: f64,
    /// (upper bound, cumulative count)
    pub buckets: Vec<(f64, u64)>,
}
#[derive(Clone, Debug, PartialEq, Serialize, Deserialize)]
pub struct PSummary {
    pub count: u64,
    pub sum: f64,
    pub quantiles: Vec<(f64, f64)>,
}
#[derive(Clone, Debug, PartialEq, Serialize, Deserialize, Default)]
pub struct PMetric {
    pub labels: Vec<(String, String)>,
    pub ts: i64,
    pub counter: Option<f64>,
    pub gauge: Option<f64>,
    pub untyped: Option<f64>,
    pub hist: Option<PHist>,
    pub summary: Option<PSummary>,
}
#[derive(Clone, Debug, PartialEq, Serialize, Deserialize)]
pub struct PFamily {
    pub name: Option<String>,
    pub help: Option<String>,
    pub typ: PType,
    pub metrics: Vec<PMetric>,
}

pub fn ptype(t: proto::MetricType) -> PType {
    match t {
        proto::MetricType::COUNTER => PType::Counter,
        proto::MetricType::GAUGE => PType::Gauge,
        proto::MetricType::SUMMARY => PType::Summary,
        proto::MetricType::UNTYPED => PType::Untyped,
        proto::MetricType::HISTOGRAM => PType::Histogram,
    }
}
pub fn mtype(t: PType) -> proto::MetricType {
    match t {
        PType::Counter => proto::MetricType::COUNTER,
        PType::Gauge => proto::MetricType::GAUGE,
        PType::Summary => proto::MetricType::SUMMARY,
        PType::Untyped => proto::MetricType::UNTYPED,
        PType::Histogram => proto::MetricType::HISTOGRAM,
    }
}

fn hist_of(h: &proto::Histogram) -> PHist {
    PHist { count: h.get_sample_count(), sum: h.get_sample_sum(), buckets: h.get_bucket().iter().map(|b| (b.upper_bound(), b.cumulative_count())).collect() }
}
fn summary_of(s: &proto::Summary) -> PSummary {
    PSummary { count: s.sample_count(), sum: s.sample_sum(), quantiles: s.get_quantile().iter().map(|q| (q.quantile(), q.value())).collect() }
}

/// Whether payload presence is observable in this data model.
pub const HAS_PRESENCE: bool = cfg!(feature = "pb");

#[cfg(feature = "pb")]
pub fn metric_of(m: &proto::Metric, _t: PType) -> PMetric {
    PMetric {
        labels: m.get_label().iter().map(|l| (l.name().to_string(), l.value().to_string())).collect(),
        ts: m.timestamp_ms(),
        counter: m.counter.as_ref().map(|c| c.value()),
        gauge: m.gauge.as_ref().map(|c| c.value()),
        untyped: m.untyped.as_ref().map(|c| c.value()),
        hist: m.histogram.as_ref().map(hist_of),
        summary: m.summary.as_ref().map(summary_of),
    }
}
#[cfg(not(feature = "pb"))]
pub fn metric_of(m: &proto::Metric, t: PType) -> PMetric {
    let mut p = PMetric { labels: m.get_label().iter().map(|l| (l.name().to_string(), l.value().to_string())).collect(), ts: m.timestamp_ms(), ..Default::default() };
    match t {
        PType::Counter => p.counter = Some(m.get_counter().get_value()),
        PType::Gauge => p.gauge = Some(m.get_gauge().get_value()),
        PType::Untyped => p.untyped = Some(m.get_untyped().get_value()),
        PType::Histogram => p.hist = Some(hist_of(m.get_histogram())),
        PType::Summary => p.summary = Some(summary_of(m.get_summary())),
    }
    p
}

/// All payload values regardless of type (plain model has no presence; this reads every slot).
pub fn raw_values(m: &proto::Metric) -> (f64, f64) {
    #[cfg(feature = "pb")]
    {
        (m.counter.as_ref().map(|c| c.value()).unwrap_or(0.0), m.gauge.as_ref().map(|c| c.value()).unwrap_or(0.0))
    }
    #[cfg(not(feature = "pb"))]
    {
        (m.get_counter().get_value(), m.get_gauge().get_value())
    }
}

pub fn family_of(mf: &proto::MetricFamily) -> PFamily {
    let t = ptype(mf.get_field_type());
    #[cfg(feature = "pb")]
    let (name, help) = (mf.name.clone(), mf.help.clone());
    #[cfg(not(feature = "pb"))]
    let (name, help) = (Some(mf.name().to_string()), Some(mf.help().to_string()));
    PFamily { name, help, typ: t, metrics: mf.get_metric().iter().map(|m| metric_of(m, t)).collect() }
}
pub fn families_of(mfs: &[proto::MetricFamily]) -> Vec<PFamily> {
    mfs.iter().map(family_of).collect()
}

pub fn to_proto(f: &PFamily) -> proto::MetricFamily {
    let mut mf = proto::MetricFamily::default();
    if let Some(n) = &f.name {
        mf.set_name(n.clone());
    }
    if let Some(h) = &f.help {
        mf.set_help(h.clone());
    }
    mf.set_field_type(mtype(f.typ));
    let mut ms = vec![];
    for pm in &f.metrics {
        let mut m = proto::Metric::default();
        let mut lps = vec![];
        for (k, v) in &pm.labels {
            let mut lp = proto::LabelPair::default();
            lp.set_name(k.clone());
            lp.set_value(v.clone());
            lps.push(lp);
        }
        m.set_label(lps);
        if pm.ts != 0 {
            m.set_timestamp_ms(pm.ts);
        }
        if let Some(v) = pm.counter {
            let mut c = proto::Counter::default();
            c.set_value(v);
            m.set_counter(c);
        }
        if let Some(v) = pm.gauge {
            let mut c = proto::Gauge::default();
            c.set_value(v);
            m.set_gauge(c);
        }
        if let Some(v) = pm.untyped {
            let mut c = proto::Untyped::default();
            c.set_value(v);
            #[cfg(feature = "pb")]
            {
                m.untyped = Some(c).into();
            }
            #[cfg(not(feature = "pb"))]
            m.set_untyped(c);
        }
        if let Some(h) = &pm.hist {
            let mut ph = proto::Histogram::default();
            ph.set_sample_count(h.count);
            ph.set_sample_sum(h.sum);
            let mut bs = vec![];
            for (ub, cc) in &h.buckets {
                let mut b = proto::Bucket::default();
                b.set_upper_bound(*ub);
                b.set_cumulative_count(*cc);
                bs.push(b);
            }
            ph.set_bucket(bs);
            m.set_histogram(ph);
        }
        if let Some(s) = &pm.summary {
            let mut ps = proto::Summary::default();
            ps.set_sample_count(s.count);
            ps.set_sample_sum(s.sum);
            let mut qs = vec![];
            for (q, v) in &s.quantiles {
                let mut pq = proto::Quantile::default();
                pq.set_quantile(*q);
                pq.set_value(*v);
                qs.push(pq);
            }
            ps.set_quantile(qs);
            m.set_summary(ps);
        }
        ms.push(m);
    }
    mf.set_metric(ms);
    mf
}

/// Counter value of the only metric of the only family (helper for simple collectors).
pub fn single_value(mfs: &[proto::MetricFamily]) -> Option<f64> {
    let f = family_of(mfs.first()?);
    let m = f.metrics.first()?;
    m.counter.or(m.gauge)
}
