use dsim::driver::Scenario;
use dsim::scen;

dsim::define_getrandom!();

fn scenario(id: &str) -> Option<&'static dyn Scenario> {
    Some(match id {
        "C01" => &scen::value::C01,
        "C11" => &scen::value::C11,
        "C02" => &scen::hist::C02,
        "C03" => &scen::hist::C03,
        "C10" => &scen::vecs::C10,
        "C05" => &scen::alias::C05,
        "C06" => &scen::registry::C06,
        "C07" => &scen::gather::C07,
        "C14" => &scen::gather::C14,
        "C15" => &scen::descs::C15,
        "C04" => &scen::encode::C04,
        "C13" => &scen::encode::C13,
        "C17" => &scen::encode::C17,
        "C08" => &scen::buckets::C08,
        "C12" => &scen::locals::C12,
        "C18" => &scen::timers::C18,
        "C16" => &scen::feature::C16,
        "C20" => &scen::macros::C20,
        "C09" => &scen::descs::C09,
        _ => return None,
    })
}

pub const ALL: &[&str] = &["C01", "C02", "C03", "C04", "C05", "C06", "C07", "C08", "C09", "C10", "C11", "C12", "C13", "C14", "C15", "C16", "C17", "C18", "C20"];


fn main() {
    dsim::cli::run(scenario, ALL)
}
