//! Helpers shared by scenario families.
use crate::driver::RunOut;
use crate::engine::{Ctx, Env, Ev, Mode, Outcome, Phase, RunResult, Sim, Strategy};
use std::collections::BTreeMap;
use std::sync::{Arc, Mutex};

pub fn op_id(t: usize, i: usize) -> u32 {
    (t * 1000 + i) as u32
}
pub fn op_thread(id: u32) -> usize {
    id as usize / 1000
}

/// (invoke seq, return seq) per op id; ops that never returned have ret = usize::MAX.
pub fn intervals(log: &[Ev]) -> BTreeMap<u32, (usize, usize)> {
    let mut m: BTreeMap<u32, (usize, usize)> = BTreeMap::new();
    for (seq, e) in log.iter().enumerate() {
        if let Ev::Api { op, phase, .. } = e {
            match phase {
                Phase::Invoke => {
                    m.insert(*op, (seq, usize::MAX));
                }
                Phase::Return => {
                    if let Some(x) = m.get_mut(op) {
                        x.1 = seq;
                    }
                }
            }
        }
    }
    m
}

pub type Results<R> = Arc<Mutex<Vec<(u32, Result<R, String>)>>>;

/// Spawn one simulated thread per op list; every op runs between invoke/return markers and
/// under catch_unwind. `exec` gets (ctx, thread, op index, op).
pub fn spawn_threads<Op, R, F>(sim: &Arc<Sim>, threads: &[Vec<Op>], results: &Results<R>, exec: F)
where
    Op: Clone + Send + 'static,
    R: Send + 'static,
    F: Fn(&Ctx, usize, usize, &Op) -> R + Send + Sync + 'static,
{
    let exec = Arc::new(exec);
    for (t, ops) in threads.iter().enumerate() {
        let ops = ops.clone();
        let results = results.clone();
        let exec = exec.clone();
        sim.spawn(&format!("sim{}", t), false, move |ctx| {
            for (i, op) in ops.iter().enumerate() {
                let id = op_id(t, i);
                ctx.invoke(id);
                let r = crate::seams::catch(|| exec(ctx, t, i, op));
                ctx.ret(id);
                results.lock().unwrap().push((id, r));
            }
        });
    }
}

pub fn strategy_name(s: &Strategy) -> String {
    match s {
        Strategy::Uniform => "uniform".into(),
        Strategy::Sticky(p) => format!("sticky{}", p),
        Strategy::Pct(d) => format!("pct{}", d),
    }
}

/// Fill the engine-derived part of a RunOut.
pub fn base_out(env: &Env, res: &RunResult) -> RunOut {
    let mut out = RunOut::default();
    out.outcome = Some(res.outcome.clone());
    out.signature = res.signature;
    out.steps = res.steps;
    out.sim_ns = res.sim_ns;
    out.fingerprint = res.fingerprint;
    out.tapes = res.tapes.clone();
    out.strategy = strategy_name(&env.strategy);
    out.faulty_cfg = env.spurious_pct > 0 || env.stall.is_some() || env.tick_pct > 0;
    out.faults = vec![("cas_spurious", res.spurious_fired), ("stall", res.stall_fired), ("clock_tick", res.ticks_fired)];
    out.probes = vec![("cas_real_conflict", res.real_cas_conflicts), ("blocked_on_lock", res.lock_blocked), ("blocked_in_spin", res.spin_blocked), ("api_calls_overlapping", res.overlaps)];
    out.nontrivial = res.overlaps > 0;
    out
}

pub fn is_finished(res: &RunResult) -> bool {
    res.outcome == Outcome::Finished
}

pub fn new_sim(env: &Env, mode: Mode) -> Arc<Sim> {
    Sim::new(env.clone(), mode)
}

/// Exact integer value of a float that is supposed to be a small non-negative integer.
pub fn f2u(v: f64) -> Option<u64> {
    if v >= 0.0 && v < 9.0e15 && v.fract() == 0.0 {
        Some(v as u64)
    } else {
        None
    }
}

/// Run `f` on a fresh OS thread whose `RandomState` keys derive from `hash_seed`, so that
/// nothing a run does depends on what the process executed before.
pub fn isolated<T: Send + 'static>(hash_seed: u64, f: impl FnOnce() -> T + Send + 'static) -> T {
    // no address is reused inside a run (see quarantine.rs); runs of one process are sequential
    crate::quarantine::begin();
    let r = isolated_inner(hash_seed, f);
    crate::quarantine::end();
    r
}
fn isolated_inner<T: Send + 'static>(hash_seed: u64, f: impl FnOnce() -> T + Send + 'static) -> T {
    let h = std::thread::Builder::new()
        .name("run".into())
        .stack_size(1024 * 1024)
        .spawn(move || {
            crate::seams::set_hash_seed(hash_seed);
            f()
        })
        .unwrap();
    match h.join() {
        Ok(v) => v,
        Err(e) => {
            let msg = e.downcast_ref::<String>().cloned().or_else(|| e.downcast_ref::<&str>().map(|s| s.to_string())).unwrap_or_default();
            eprintln!("HARNESS-ERROR panic in run thread: {} @ {}", msg, crate::seams::take_panic_location());
            std::process::exit(2);
        }
    }
}

/// Spawn a thread that waits for quiescence (all other foreground threads done) and then runs
/// `f` under the scheduler, so that a read which never returns shows up as a stuck run instead
/// of hanging the harness.
pub fn spawn_final<F: FnOnce(&Ctx) + Send + 'static>(sim: &Arc<Sim>, f: F) {
    sim.spawn("final", false, move |ctx| {
        ctx.wait_quiescent();
        ctx.invoke(FINAL_OP);
        f(ctx);
        ctx.ret(FINAL_OP);
    });
}
pub const FINAL_OP: u32 = 900_000;

/// Objects containing shim cells must outlive the run: a freed cell whose address is reused by a
/// new one would get the same location id, and whether that happens depends on allocator state
/// left behind by earlier runs of the process.
#[derive(Clone, Default)]
pub struct Keep(Arc<Mutex<Vec<Box<dyn std::any::Any + Send>>>>);
impl Keep {
    pub fn new() -> Keep {
        Keep::default()
    }
    pub fn push<T: std::any::Any + Send>(&self, x: T) {
        self.0.lock().unwrap().push(Box::new(x));
    }
}

struct InjectedPanic;
/// Fault injection: drop `x` while the current thread unwinds from a panic raised right here
/// (caught again once the destructors have run).
pub fn drop_while_unwinding<T>(x: T) {
    let r = std::panic::catch_unwind(std::panic::AssertUnwindSafe(move || {
        let _x = x;
        std::panic::resume_unwind(Box::new(InjectedPanic));
    }));
    match r {
        Err(e) if e.is::<InjectedPanic>() => {}
        Err(e) => std::panic::resume_unwind(e),
        Ok(()) => unreachable!(),
    }
}
