//! Wing–Gong linearizability search with state memoisation.
use std::collections::HashSet;
use std::hash::Hash;

pub trait Spec {
    type State: Clone + Eq + Hash;
    type Op;
    /// Apply `op` (which carries its recorded result) to `s`; None if the recorded result
    /// is impossible in state `s`.
    fn step(&self, s: &Self::State, op: &Self::Op) -> Option<Self::State>;
}

pub struct HOp<O> {
    pub inv: usize,
    pub ret: usize,
    pub op: O,
}

/// Returns Some(final states reachable) if linearizable, None otherwise. `ops.len()` ≤ 30.
pub fn linearize<S: Spec>(spec: &S, init: S::State, ops: &[HOp<S::Op>]) -> Option<Vec<S::State>> {
    assert!(ops.len() <= 30, "history too long for the linearizability checker");
    let n = ops.len();
    let full: u32 = if n == 0 { 0 } else { (1u32 << n) - 1 };
    let mut seen: HashSet<(u32, S::State)> = HashSet::new();
    let mut finals: Vec<S::State> = vec![];
    let mut stack: Vec<(u32, S::State)> = vec![(0, init)];
    while let Some((mask, st)) = stack.pop() {
        if mask == full {
            if !finals.contains(&st) {
                finals.push(st);
            }
            continue;
        }
        // earliest return among pending operations
        let mut min_ret = usize::MAX;
        for i in 0..n {
            if mask & (1 << i) == 0 && ops[i].ret < min_ret {
                min_ret = ops[i].ret;
            }
        }
        for i in 0..n {
            if mask & (1 << i) != 0 || ops[i].inv > min_ret {
                continue;
            }
            if let Some(ns) = spec.step(&st, &ops[i].op) {
                let key = (mask | (1 << i), ns);
                if seen.insert(key.clone()) {
                    stack.push(key);
                }
            }
        }
    }
    if finals.is_empty() {
        None
    } else {
        Some(finals)
    }
}

#[cfg(test)]
mod tests {
    use super::*;
    struct Reg;
    #[derive(Clone)]
    enum O {
        W(i64),
        R(i64),
    }
    impl Spec for Reg {
        type State = i64;
        type Op = O;
        fn step(&self, s: &i64, op: &O) -> Option<i64> {
            match op {
                O::W(v) => Some(*v),
                O::R(v) => {
                    if v == s {
                        Some(*s)
                    } else {
                        None
                    }
                }
            }
        }
    }
    #[test]
    fn sequential_ok() {
        let h = vec![HOp { inv: 0, ret: 1, op: O::W(1) }, HOp { inv: 2, ret: 3, op: O::R(1) }];
        assert!(linearize(&Reg, 0, &h).is_some());
    }
    #[test]
    fn stale_read_rejected() {
        let h = vec![HOp { inv: 0, ret: 1, op: O::W(1) }, HOp { inv: 2, ret: 3, op: O::R(0) }];
        assert!(linearize(&Reg, 0, &h).is_none());
    }
    #[test]
    fn concurrent_read_either() {
        let h = vec![HOp { inv: 0, ret: 5, op: O::W(1) }, HOp { inv: 1, ret: 2, op: O::R(0) }, HOp { inv: 3, ret: 4, op: O::R(1) }];
        assert!(linearize(&Reg, 0, &h).is_some());
        let h = vec![HOp { inv: 0, ret: 5, op: O::W(1) }, HOp { inv: 1, ret: 2, op: O::R(1) }, HOp { inv: 3, ret: 4, op: O::R(0) }];
        assert!(linearize(&Reg, 0, &h).is_none());
    }
}
