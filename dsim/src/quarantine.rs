//! Global allocator that can postpone every `free` until the end of a run.
//!
//! The engine names an atomic cell by the order in which its address is first seen. If a cell is
//! freed during a run and a new one is allocated at the same address, the two would share a name,
//! and whether that happens depends on allocator state left behind by earlier runs of the worker
//! process. While the quarantine is active nothing is returned to the system allocator, so an
//! address is never reused inside a run; everything is released when the run is over.
use std::alloc::{GlobalAlloc, Layout, System};
use std::sync::atomic::{AtomicBool, AtomicUsize, Ordering};

pub struct Quarantine;

static ACTIVE: AtomicBool = AtomicBool::new(false);
static LOCK: AtomicBool = AtomicBool::new(false);
// table of (ptr, size, align) triples, allocated directly from the system allocator
static TABLE: AtomicUsize = AtomicUsize::new(0);
static CAP: AtomicUsize = AtomicUsize::new(0);
static LEN: AtomicUsize = AtomicUsize::new(0);

fn lock() {
    while LOCK.compare_exchange_weak(false, true, Ordering::Acquire, Ordering::Relaxed).is_err() {
        std::hint::spin_loop();
    }
}
fn unlock() {
    LOCK.store(false, Ordering::Release);
}

unsafe fn push(ptr: *mut u8, layout: Layout) {
    lock();
    let len = LEN.load(Ordering::Relaxed);
    let cap = CAP.load(Ordering::Relaxed);
    if len == cap {
        let ncap = if cap == 0 { 4096 } else { cap * 2 };
        let nl = Layout::from_size_align_unchecked(ncap * 3 * std::mem::size_of::<usize>(), std::mem::align_of::<usize>());
        let nt = System.alloc(nl) as *mut usize;
        let ot = TABLE.load(Ordering::Relaxed) as *mut usize;
        if !ot.is_null() {
            std::ptr::copy_nonoverlapping(ot, nt, len * 3);
            System.dealloc(ot as *mut u8, Layout::from_size_align_unchecked(cap * 3 * std::mem::size_of::<usize>(), std::mem::align_of::<usize>()));
        }
        TABLE.store(nt as usize, Ordering::Relaxed);
        CAP.store(ncap, Ordering::Relaxed);
    }
    let t = TABLE.load(Ordering::Relaxed) as *mut usize;
    *t.add(len * 3) = ptr as usize;
    *t.add(len * 3 + 1) = layout.size();
    *t.add(len * 3 + 2) = layout.align();
    LEN.store(len + 1, Ordering::Relaxed);
    unlock();
}

unsafe impl GlobalAlloc for Quarantine {
    unsafe fn alloc(&self, layout: Layout) -> *mut u8 {
        System.alloc(layout)
    }
    unsafe fn alloc_zeroed(&self, layout: Layout) -> *mut u8 {
        System.alloc_zeroed(layout)
    }
    unsafe fn dealloc(&self, ptr: *mut u8, layout: Layout) {
        if ACTIVE.load(Ordering::Relaxed) {
            push(ptr, layout);
        } else {
            System.dealloc(ptr, layout);
        }
    }
}

/// Start postponing frees (process-wide).
pub fn begin() {
    ACTIVE.store(true, Ordering::SeqCst);
}
/// Stop postponing and release everything that was postponed.
pub fn end() {
    ACTIVE.store(false, Ordering::SeqCst);
    unsafe {
        lock();
        let len = LEN.load(Ordering::Relaxed);
        let t = TABLE.load(Ordering::Relaxed) as *mut usize;
        LEN.store(0, Ordering::Relaxed);
        // copy the entries out under the lock is unnecessary: nobody pushes while inactive
        unlock();
        for i in 0..len {
            let p = *t.add(i * 3) as *mut u8;
            let l = Layout::from_size_align_unchecked(*t.add(i * 3 + 1), *t.add(i * 3 + 2));
            System.dealloc(p, l);
        }
    }
}
