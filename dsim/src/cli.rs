//! Command line shared by the dsim binaries.
use crate::driver::{self, CheckOpts, Scenario, Tier, DEFAULT_SEED};
use crate::{engine, seams};

pub type Lookup = fn(&str) -> Option<&'static dyn Scenario>;

/// The default registry is process-global: create it on the main thread (fixed hash seed) and grow
/// its map once, so that its iteration order never depends on what a process ran before.
fn warm_default_registry() {
    let mut cs = vec![];
    for i in 0..40 {
        let c = prometheus::IntCounter::new(format!("dsim_warmup_{}", i), "warmup").unwrap();
        prometheus::register(Box::new(c.clone())).unwrap();
        cs.push(c);
    }
    for c in cs {
        prometheus::unregister(Box::new(c)).unwrap();
    }
}

fn tier_of(s: &str) -> Tier {
    match s {
        "thorough" => Tier::Thorough,
        _ => Tier::Quick,
    }
}

fn arg_val(args: &[String], name: &str) -> Option<String> {
    args.iter().position(|a| a == name).and_then(|i| args.get(i + 1).cloned())
}

pub fn run(scenario: Lookup, all: &[&str]) -> ! {
    seams::install_panic_hook();
    warm_default_registry();
    let args: Vec<String> = std::env::args().collect();
    let cmd = args.get(1).map(|s| s.as_str()).unwrap_or("");
    let code = match cmd {
        "worker" => {
            let sc = scenario(&args[2]).expect("scenario");
            driver::worker_main(sc, tier_of(&args[3]), args[4].parse().unwrap(), args[5].parse().unwrap(), args[6].parse().unwrap(), args[7].parse().unwrap(), &args[8]);
            0
        }
        "check" => {
            let id = args.get(2).cloned().unwrap_or_default();
            let sc = match scenario(&id) {
                Some(s) => s,
                None => {
                    println!("HARNESS-ERROR unknown property {}", id);
                    std::process::exit(2)
                }
            };
            let tier = std::env::var("VERIF_TIER").ok().or_else(|| arg_val(&args, "--tier")).map(|t| tier_of(&t)).unwrap_or(Tier::Quick);
            let seed = arg_val(&args, "--seed").or_else(|| std::env::var("VERIF_SEED").ok()).and_then(|s| s.parse().ok()).unwrap_or(DEFAULT_SEED);
            let jobs = arg_val(&args, "--jobs").or_else(|| std::env::var("VERIF_JOBS").ok()).and_then(|s| s.parse().ok()).unwrap_or_else(|| unsafe { libc::sysconf(libc::_SC_NPROCESSORS_ONLN) }.max(1) as usize);
            let runs_override = arg_val(&args, "--runs").and_then(|s| s.parse().ok());
            let write_evidence = !args.iter().any(|a| a == "--no-evidence");
            let extra = arg_val(&args, "--extra").and_then(|f| std::fs::read_to_string(f).ok()).and_then(|s| serde_json::from_str::<serde_json::Value>(&s).ok());
            driver::check_main(sc, &CheckOpts { tier, seed, jobs, runs_override, write_evidence, extra })
        }
        "replay" => driver::replay_main(&scenario, &args[2], args.iter().any(|a| a == "--quiet")),
        "one" => {
            // debugging aid: dsim one Cxx <index> [--seed N] [--tier t]
            seams::install_panic_hook();
            let sc = scenario(&args[2]).expect("scenario");
            let index: u64 = args[3].parse().unwrap();
            let seed = arg_val(&args, "--seed").and_then(|s| s.parse().ok()).unwrap_or(DEFAULT_SEED);
            let tier = arg_val(&args, "--tier").map(|t| tier_of(&t)).unwrap_or(Tier::Quick);
            let rs = driver::run_seed(seed, sc.id(), index);
            let plan = sc.gen(rs, tier);
            println!("plan: {}", serde_json::to_string(&plan).unwrap());
            let out = sc.run(&plan, engine::Mode::Fresh(rs));
            println!("outcome {:?} steps {} nontrivial {} fp {:016x} sig {:016x}", out.outcome, out.steps, out.nontrivial, out.fingerprint, out.signature);
            println!("schedule: {}", serde_json::to_string(&out.tapes).unwrap());
            for v in &out.violations {
                println!("VIOL [{}] key={} {}", v.class, v.key, v.msg);
            }
            0
        }
        "fingerprints" => {
            // dsim fingerprints Cxx <start> <count> [--seed N]: one line per run, for determinism tests
            seams::install_panic_hook();
            let sc = scenario(&args[2]).expect("scenario");
            let start: u64 = args[3].parse().unwrap();
            let count: u64 = args[4].parse().unwrap();
            let seed = arg_val(&args, "--seed").and_then(|s| s.parse().ok()).unwrap_or(DEFAULT_SEED);
            let rev = args.iter().any(|a| a == "--reverse");
            let mut lines = vec![];
            let idx: Vec<u64> = if rev { (start..start + count).rev().collect() } else { (start..start + count).collect() };
            for index in idx {
                let rs = driver::run_seed(seed, sc.id(), index);
                let plan = sc.gen(rs, Tier::Quick);
                let out = sc.run(&plan, engine::Mode::Fresh(rs));
                lines.push((index, format!("{} {:016x} {:016x} {} {}", index, out.fingerprint, out.signature, out.steps, out.violations.len())));
            }
            lines.sort();
            for (_, l) in lines {
                println!("{}", l);
            }
            0
        }
        "selfreplay" => {
            // dsim selfreplay Cxx <start> <count>: record every run, replay it strictly from its tapes,
            // demand the same fingerprint, outcome and violation count
            let sc = scenario(&args[2]).expect("scenario");
            let start: u64 = args[3].parse().unwrap();
            let count: u64 = args[4].parse().unwrap();
            let mut bad = 0;
            for index in start..start + count {
                let rs = driver::run_seed(DEFAULT_SEED, sc.id(), index);
                let plan = sc.gen(rs, Tier::Quick);
                let a = sc.run(&plan, engine::Mode::Fresh(rs));
                let b = sc.run(&plan, engine::Mode::Replay { tapes: a.tapes.clone(), lenient: false });
                if a.fingerprint != b.fingerprint || a.outcome != b.outcome || a.violations.len() != b.violations.len() {
                    bad += 1;
                    println!("replay mismatch at index {}: {:016x}/{:?} vs {:016x}/{:?}", index, a.fingerprint, a.outcome, b.fingerprint, b.outcome);
                }
            }
            println!("selfreplay {}: {} runs recorded and replayed, {} mismatches", sc.id(), count, bad);
            if bad > 0 {
                2
            } else {
                0
            }
        }
        "serve16" => {
            crate::scen::feature::serve();
            0
        }
        "hashprobe" => {
            for s in [1u64, 2, 1] {
                println!("{:?}", seams::hash_order_probe(s));
            }
            0
        }
        "list" => {
            for id in all {
                println!("{}", id);
            }
            0
        }
        _ => {
            eprintln!("usage: dsim check <Cxx> [--tier quick|thorough] [--seed N] [--jobs N] | replay <file> | one <Cxx> <index> | fingerprints <Cxx> <start> <count>");
            2
        }
    };
    std::process::exit(code);
}
