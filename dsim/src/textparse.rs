//! Independent parser for the Prometheus text exposition format 0.0.4 (shares no code with the
//! crate under test). Lines are split on '\n' only.
use crate::compat::{PFamily, PHist, PMetric, PSummary, PType};

#[derive(Debug, Clone)]
pub struct Sample {
    pub name: String,
    pub labels: Vec<(String, String)>,
    pub value: f64,
    pub ts: i64,
}

pub fn parse_float(s: &str) -> Result<f64, String> {
    // Go's strconv.ParseFloat accepts inf/infinity/nan case-insensitively with optional sign
    let l = s.to_ascii_lowercase();
    let (neg, body) = match l.strip_prefix('-') {
        Some(b) => (true, b.to_string()),
        None => (false, l.strip_prefix('+').unwrap_or(&l).to_string()),
    };
    let v = match body.as_str() {
        "inf" | "infinity" => f64::INFINITY,
        "nan" => f64::NAN,
        _ => {
            if body.is_empty() || !body.bytes().all(|b| b.is_ascii_digit() || b == b'.' || b == b'e' || b == b'-' || b == b'+') {
                return Err(format!("bad float {:?}", s));
            }
            body.parse::<f64>().map_err(|e| format!("bad float {:?}: {}", s, e))?
        }
    };
    Ok(if neg { -v } else { v })
}

fn unescape(s: &str, allow_quote: bool) -> Result<String, String> {
    let mut out = String::new();
    let mut it = s.chars();
    while let Some(c) = it.next() {
        if c == '\\' {
            match it.next() {
                Some('\\') => out.push('\\'),
                Some('n') => out.push('\n'),
                Some('"') if allow_quote => out.push('"'),
                o => return Err(format!("bad escape \\{:?} in {:?}", o, s)),
            }
        } else {
            out.push(c);
        }
    }
    Ok(out)
}

fn is_name_char(c: char, first: bool, colon: bool) -> bool {
    c.is_ascii_alphabetic() || c == '_' || (colon && c == ':') || (!first && c.is_ascii_digit())
}

pub fn parse_sample(line: &str) -> Result<Sample, String> {
    let mut chars = line.char_indices().peekable();
    let mut end = 0;
    let mut first = true;
    while let Some(&(i, c)) = chars.peek() {
        if is_name_char(c, first, true) {
            first = false;
            end = i + c.len_utf8();
            chars.next();
        } else {
            break;
        }
    }
    if end == 0 {
        return Err(format!("no metric name in {:?}", line));
    }
    let name = line[..end].to_string();
    let mut rest = &line[end..];
    let mut labels = vec![];
    if let Some(r) = rest.strip_prefix('{') {
        let mut r = r;
        loop {
            if let Some(x) = r.strip_prefix('}') {
                rest = x;
                break;
            }
            // label name
            let mut e = 0;
            let mut f = true;
            for (i, c) in r.char_indices() {
                if is_name_char(c, f, false) {
                    f = false;
                    e = i + c.len_utf8();
                } else {
                    break;
                }
            }
            if e == 0 {
                return Err(format!("no label name at {:?}", r));
            }
            let lname = r[..e].to_string();
            r = r[e..].strip_prefix("=\"").ok_or_else(|| format!("expected =\" after label name in {:?}", line))?;
            // value up to the first unescaped quote
            let mut esc = false;
            let mut close = None;
            for (i, c) in r.char_indices() {
                if esc {
                    esc = false;
                } else if c == '\\' {
                    esc = true;
                } else if c == '"' {
                    close = Some(i);
                    break;
                }
            }
            let close = close.ok_or_else(|| format!("unterminated label value in {:?}", line))?;
            labels.push((lname, unescape(&r[..close], true)?));
            r = &r[close + 1..];
            if let Some(x) = r.strip_prefix(',') {
                r = x;
            } else if !r.starts_with('}') {
                return Err(format!("expected , or }} in {:?}", line));
            }
        }
    }
    let rest = rest.strip_prefix(' ').ok_or_else(|| format!("expected blank before value in {:?}", line))?;
    let mut parts = rest.split(' ');
    let v = parse_float(parts.next().unwrap_or(""))?;
    let ts = match parts.next() {
        Some(t) => t.parse::<i64>().map_err(|e| format!("bad timestamp {:?}: {}", t, e))?,
        None => 0,
    };
    if parts.next().is_some() {
        return Err(format!("trailing tokens in {:?}", line));
    }
    Ok(Sample { name, labels, value: v, ts })
}

fn type_of(s: &str) -> Result<PType, String> {
    Ok(match s {
        "counter" => PType::Counter,
        "gauge" => PType::Gauge,
        "summary" => PType::Summary,
        "untyped" => PType::Untyped,
        "histogram" => PType::Histogram,
        o => return Err(format!("unknown type {:?}", o)),
    })
}

fn as_count(v: f64) -> Result<u64, String> {
    if v >= 0.0 && v.fract() == 0.0 && v < 1.9e19 {
        Ok(v as u64)
    } else {
        Err(format!("count {} is not a non-negative integer", v))
    }
}

/// Parse a whole exposition; returns families and the number of lines seen.
pub fn parse(text: &str) -> Result<(Vec<PFamily>, usize), String> {
    if !text.is_empty() && !text.ends_with('\n') {
        return Err("exposition does not end with a newline".into());
    }
    let mut fams: Vec<PFamily> = vec![];
    let mut pending_help: Option<(String, String)> = None;
    let mut nlines = 0;
    // partially assembled histogram / summary metric of the current family
    let mut cur: Option<PMetric> = None;
    for line in text.split('\n') {
        if line.is_empty() {
            continue;
        }
        nlines += 1;
        if let Some(r) = line.strip_prefix("# HELP ") {
            let (n, h) = r.split_once(' ').ok_or_else(|| format!("HELP without docstring: {:?}", line))?;
            if cur.is_some() {
                return Err(format!("HELP line inside an unfinished metric: {:?}", line));
            }
            pending_help = Some((n.to_string(), unescape(h, false)?));
            continue;
        }
        if let Some(r) = line.strip_prefix("# TYPE ") {
            let (n, t) = r.split_once(' ').ok_or_else(|| format!("TYPE without type: {:?}", line))?;
            if cur.is_some() {
                return Err(format!("TYPE line inside an unfinished metric: {:?}", line));
            }
            let help = match pending_help.take() {
                Some((hn, h)) => {
                    if hn != n {
                        return Err(format!("HELP for {:?} followed by TYPE for {:?}", hn, n));
                    }
                    Some(h)
                }
                None => None,
            };
            fams.push(PFamily { name: Some(n.to_string()), help, typ: type_of(t)?, metrics: vec![] });
            continue;
        }
        if line.starts_with('#') {
            return Err(format!("unexpected comment line {:?}", line));
        }
        let s = parse_sample(line)?;
        let f = fams.last_mut().ok_or_else(|| format!("sample before any TYPE line: {:?}", line))?;
        let fname = f.name.clone().unwrap();
        match f.typ {
            PType::Counter | PType::Gauge | PType::Untyped => {
                if s.name != fname {
                    return Err(format!("sample {:?} inside family {:?}", s.name, fname));
                }
                let mut m = PMetric { labels: s.labels, ts: s.ts, ..Default::default() };
                match f.typ {
                    PType::Counter => m.counter = Some(s.value),
                    PType::Gauge => m.gauge = Some(s.value),
                    _ => m.untyped = Some(s.value),
                }
                f.metrics.push(m);
            }
            PType::Histogram => {
                let suffix = s.name.strip_prefix(fname.as_str()).ok_or_else(|| format!("sample {:?} inside family {:?}", s.name, fname))?;
                match suffix {
                    "_bucket" => {
                        let mut labels = s.labels.clone();
                        let le = labels.pop().filter(|l| l.0 == "le").ok_or_else(|| format!("bucket line without trailing le label: {:?}", line))?;
                        let ub = parse_float(&le.1)?;
                        let m = cur.get_or_insert_with(|| PMetric { labels: labels.clone(), ts: s.ts, hist: Some(PHist { count: 0, sum: 0.0, buckets: vec![] }), ..Default::default() });
                        if m.labels != labels || m.ts != s.ts {
                            return Err(format!("bucket line of another metric inside an unfinished histogram: {:?}", line));
                        }
                        m.hist.as_mut().unwrap().buckets.push((ub, as_count(s.value)?));
                    }
                    "_sum" => {
                        let m = cur.as_mut().ok_or_else(|| format!("_sum before buckets: {:?}", line))?;
                        if m.labels != s.labels || m.ts != s.ts {
                            return Err(format!("_sum of another metric: {:?}", line));
                        }
                        m.hist.as_mut().unwrap().sum = s.value;
                    }
                    "_count" => {
                        let mut m = cur.take().ok_or_else(|| format!("_count before buckets: {:?}", line))?;
                        if m.labels != s.labels || m.ts != s.ts {
                            return Err(format!("_count of another metric: {:?}", line));
                        }
                        m.hist.as_mut().unwrap().count = as_count(s.value)?;
                        f.metrics.push(m);
                    }
                    o => return Err(format!("unexpected suffix {:?} in histogram family: {:?}", o, line)),
                }
            }
            PType::Summary => {
                let suffix = s.name.strip_prefix(fname.as_str()).ok_or_else(|| format!("sample {:?} inside family {:?}", s.name, fname))?;
                match suffix {
                    "" => {
                        let mut labels = s.labels.clone();
                        let q = labels.pop().filter(|l| l.0 == "quantile").ok_or_else(|| format!("summary line without trailing quantile label: {:?}", line))?;
                        let qv = parse_float(&q.1)?;
                        let m = cur.get_or_insert_with(|| PMetric { labels: labels.clone(), ts: s.ts, summary: Some(PSummary { count: 0, sum: 0.0, quantiles: vec![] }), ..Default::default() });
                        if m.labels != labels || m.ts != s.ts {
                            return Err(format!("quantile line of another metric inside an unfinished summary: {:?}", line));
                        }
                        m.summary.as_mut().unwrap().quantiles.push((qv, s.value));
                    }
                    "_sum" => {
                        let m = cur.get_or_insert_with(|| PMetric { labels: s.labels.clone(), ts: s.ts, summary: Some(PSummary { count: 0, sum: 0.0, quantiles: vec![] }), ..Default::default() });
                        if m.labels != s.labels || m.ts != s.ts {
                            return Err(format!("_sum of another metric: {:?}", line));
                        }
                        m.summary.as_mut().unwrap().sum = s.value;
                    }
                    "_count" => {
                        let mut m = cur.take().ok_or_else(|| format!("_count before _sum: {:?}", line))?;
                        if m.labels != s.labels || m.ts != s.ts {
                            return Err(format!("_count of another metric: {:?}", line));
                        }
                        m.summary.as_mut().unwrap().count = as_count(s.value)?;
                        f.metrics.push(m);
                    }
                    o => return Err(format!("unexpected suffix {:?} in summary family: {:?}", o, line)),
                }
            }
        }
    }
    if cur.is_some() {
        return Err("exposition ends inside an unfinished histogram/summary".into());
    }
    if pending_help.is_some() {
        return Err("HELP line without TYPE line".into());
    }
    Ok((fams, nlines))
}

#[cfg(test)]
mod tests {
    use super::*;
    #[test]
    fn basic() {
        let t = "# HELP a h\\\\x\\n\n# TYPE a counter\na{l=\"v\\\"q\\\\\\n\"} 1.5 -3\n# TYPE h histogram\nh_bucket{le=\"1\"} 1\nh_bucket{le=\"+Inf\"} 2\nh_sum NaN\nh_count 2\n";
        let (f, n) = parse(t).unwrap();
        assert_eq!(n, 8);
        assert_eq!(f[0].help.as_deref(), Some("h\\x\n"));
        assert_eq!(f[0].metrics[0].labels[0].1, "v\"q\\\n");
        assert_eq!(f[0].metrics[0].ts, -3);
        assert_eq!(f[1].metrics[0].hist.as_ref().unwrap().buckets.len(), 2);
        assert!(f[1].metrics[0].hist.as_ref().unwrap().sum.is_nan());
    }
    #[test]
    fn rejects_injected_line() {
        assert!(parse("# TYPE a counter\na 1\ninjected\n").is_err());
        assert!(parse("# TYPE a counter\na{l=\"x\"} 1 2 3\n").is_err());
    }
}
