//! Check driver: worker processes, aggregation, minimisation, replay files, evidence.
use crate::engine::{Mode, Outcome, Tapes};
use crate::rng::{mix2, splitmix};
use serde::{Deserialize, Serialize};
use serde_json::{json, Value};
use std::collections::{BTreeMap, BTreeSet};
use std::io::{Read, Write};
use std::path::PathBuf;
use std::time::Instant;

pub const DEFAULT_SEED: u64 = 20260927;

#[derive(Clone, Copy, Debug, PartialEq, Eq)]
pub enum Tier {
    Quick,
    Thorough,
}
impl Tier {
    pub fn name(self) -> &'static str {
        match self {
            Tier::Quick => "quick",
            Tier::Thorough => "thorough",
        }
    }
}

#[derive(Clone, Debug, Serialize, Deserialize, PartialEq)]
pub struct Violation {
    /// `<property>/<oracle clause>`
    pub class: String,
    /// specific signature used by the known-findings matcher (class + shape of the failing case)
    pub key: String,
    pub msg: String,
}
impl Violation {
    pub fn new(class: &str, key: impl Into<String>, msg: impl Into<String>) -> Violation {
        Violation { class: class.to_string(), key: key.into(), msg: msg.into() }
    }
}

#[derive(Default)]
pub struct RunOut {
    pub violations: Vec<Violation>,
    pub outcome: Option<Outcome>,
    pub nontrivial: bool,
    pub signature: u64,
    pub steps: u64,
    pub sim_ns: u64,
    pub fingerprint: u64,
    pub tapes: Tapes,
    pub faults: Vec<(&'static str, u64)>,
    pub probes: Vec<(&'static str, u64)>,
    pub strategy: String,
    pub faulty_cfg: bool,
}

pub struct Info {
    pub rule: &'static str,
    pub assumptions: Vec<&'static str>,
    pub real: Vec<&'static str>,
    pub stubbed: Vec<&'static str>,
    pub expected_probes: Vec<&'static str>,
}

pub trait Scenario: Sync {
    fn id(&self) -> &'static str;
    fn name(&self) -> &'static str;
    fn runs(&self, tier: Tier) -> u64;
    fn gen(&self, seed: u64, tier: Tier) -> Value;
    fn run(&self, plan: &Value, mode: Mode) -> RunOut;
    fn shrink(&self, _plan: &Value) -> Vec<Value> {
        vec![]
    }
    fn info(&self) -> Info;
}

pub fn verif_dir() -> PathBuf {
    std::env::var("VERIF_DIR").map(PathBuf::from).unwrap_or_else(|_| PathBuf::from("/verif"))
}

pub fn run_seed(verif_seed: u64, id: &str, index: u64) -> u64 {
    let mut tag = 0u64;
    for b in id.bytes() {
        tag = tag.wrapping_mul(131).wrapping_add(b as u64);
    }
    mix2(splitmix(verif_seed ^ tag.wrapping_mul(0x9E3779B97F4A7C15)), index)
}

#[derive(Serialize, Deserialize, Clone, Debug)]
pub struct FoundViolation {
    pub index: u64,
    pub run_seed: u64,
    pub plan: Value,
    pub tapes: Tapes,
    pub violation: Violation,
    pub fingerprint: u64,
}

#[derive(Serialize, Deserialize, Default, Debug)]
pub struct WorkerSummary {
    pub runs: u64,
    pub nontrivial: u64,
    pub steps: u64,
    pub sim_ns: u64,
    pub inconclusive: u64,
    pub stuck: u64,
    pub faulty_cfg_runs: u64,
    pub faults: BTreeMap<String, u64>,
    pub probes: BTreeMap<String, u64>,
    pub strategies: BTreeMap<String, u64>,
    pub violations: Vec<FoundViolation>,
    pub violating_runs: u64,
    #[serde(default)]
    pub known_finding_runs: u64,
    pub samples: Vec<Value>,
    pub fp_xor: u64,
}

fn pin_to_cpu(cpu: usize) {
    unsafe {
        let mut set: libc::cpu_set_t = std::mem::zeroed();
        libc::CPU_ZERO(&mut set);
        libc::CPU_SET(cpu, &mut set);
        libc::sched_setaffinity(0, std::mem::size_of::<libc::cpu_set_t>(), &set);
    }
}

/// `dsim worker <id> <tier> <verif_seed> <start> <count> <cpu> <workfile-prefix>`
pub fn worker_main(sc: &dyn Scenario, tier: Tier, verif_seed: u64, start: u64, count: u64, cpu: usize, prefix: &str) {
    pin_to_cpu(cpu);
    crate::seams::install_panic_hook();
    let mut sum = WorkerSummary::default();
    let mut sigs: Vec<u64> = Vec::with_capacity(count as usize);
    let curfile = std::fs::OpenOptions::new().create(true).write(true).truncate(true).open(format!("{}.cur", prefix)).ok();
    let max_viol = 24;
    let known: BTreeSet<String> = load_known().into_iter().filter(|k| k.property == sc.id()).map(|k| k.key).collect();
    for index in start..start + count {
        if let Some(f) = &curfile {
            use std::os::unix::fs::FileExt;
            let _ = f.write_all_at(&index.to_le_bytes(), 0);
        }
        let rs = run_seed(verif_seed, sc.id(), index);
        let plan = sc.gen(rs, tier);
        let out = sc.run(&plan, Mode::Fresh(rs));
        sum.runs += 1;
        sum.steps += out.steps;
        sum.sim_ns += out.sim_ns;
        sum.fp_xor ^= splitmix(out.fingerprint ^ index);
        if out.faulty_cfg {
            sum.faulty_cfg_runs += 1;
        }
        match out.outcome {
            Some(Outcome::StepCap) | Some(Outcome::Diverged) => sum.inconclusive += 1,
            Some(Outcome::Stuck) => sum.stuck += 1,
            _ => {}
        }
        for (k, v) in &out.faults {
            *sum.faults.entry(k.to_string()).or_default() += v;
        }
        for (k, v) in &out.probes {
            *sum.probes.entry(k.to_string()).or_default() += v;
        }
        if !out.strategy.is_empty() {
            *sum.strategies.entry(out.strategy.clone()).or_default() += 1;
        }
        if out.nontrivial {
            sum.nontrivial += 1;
            sigs.push(out.signature);
            if sum.samples.len() < 2 {
                sum.samples.push(json!({"index": index, "run_seed": rs, "plan": plan, "schedule_rle": serde_json::to_value(&out.tapes).unwrap()["sched"], "steps": out.steps}));
            }
        }
        if !out.violations.is_empty() {
            // listed known findings are recorded (once per key) but do not stop the batch early
            if out.violations.iter().any(|v| !known.contains(&v.key)) {
                sum.violating_runs += 1;
            } else {
                sum.known_finding_runs += 1;
            }
            let mut seen = BTreeSet::new();
            for v in out.violations {
                if seen.insert(v.key.clone()) && sum.violations.iter().filter(|f| f.violation.key == v.key).count() < 2 {
                    sum.violations.push(FoundViolation { index, run_seed: rs, plan: plan.clone(), tapes: out.tapes.clone(), violation: v, fingerprint: out.fingerprint });
                }
            }
            if sum.violating_runs >= max_viol {
                break;
            }
        }
    }
    sigs.sort_unstable();
    sigs.dedup();
    let mut bytes = Vec::with_capacity(sigs.len() * 8);
    for s in &sigs {
        bytes.extend_from_slice(&s.to_le_bytes());
    }
    std::fs::write(format!("{}.sig", prefix), bytes).expect("write sig file");
    let _ = std::fs::remove_file(format!("{}.cur", prefix));
    println!("{}", serde_json::to_string(&sum).unwrap());
}

#[derive(Deserialize, Default)]
struct KnownFile {
    #[serde(default)]
    findings: Vec<KnownFinding>,
}
#[derive(Deserialize, Clone)]
struct KnownFinding {
    property: String,
    key: String,
    what: String,
}

fn load_known() -> Vec<KnownFinding> {
    let p = std::env::var("VERIF_KNOWN").map(PathBuf::from).unwrap_or_else(|_| PathBuf::from("/verif/known_findings.json"));
    match std::fs::read_to_string(&p) {
        Ok(s) => serde_json::from_str::<KnownFile>(&s).map(|k| k.findings).unwrap_or_else(|e| {
            eprintln!("HARNESS-ERROR cannot parse {}: {}", p.display(), e);
            std::process::exit(2)
        }),
        Err(_) => vec![],
    }
}

#[derive(Serialize, Deserialize, Clone, Debug)]
pub struct ReplayFile {
    pub format: u32,
    pub property: String,
    pub scenario: String,
    pub verif_seed: u64,
    pub index: u64,
    pub run_seed: u64,
    pub repo_head: String,
    pub plan: Value,
    /// None: decisions are regenerated from run_seed (only used for crash reports)
    pub tapes: Option<Tapes>,
    pub expect: Violation,
    pub fingerprint: u64,
    pub minimiser: Value,
}

fn repo_head() -> String {
    let out = std::process::Command::new("git").args(["-C", "/repo", "rev-parse", "HEAD"]).output();
    let mut s = out.ok().map(|o| String::from_utf8_lossy(&o.stdout).trim().to_string()).unwrap_or_default();
    let dirty = std::process::Command::new("git").args(["-C", "/repo", "status", "--porcelain", "--untracked-files=no"]).output().ok().map(|o| !o.stdout.is_empty()).unwrap_or(false);
    if dirty {
        s.push_str("+dirty");
    }
    s
}

fn has_class(out: &RunOut, class: &str) -> Option<Violation> {
    out.violations.iter().find(|v| v.class == class).cloned()
}

/// Shrink plan, then faults, then schedule while the same violation class persists.
pub fn minimise(sc: &dyn Scenario, f: &FoundViolation) -> (Value, Tapes, Violation, u64, Value) {
    let t0 = Instant::now();
    let class = f.violation.class.clone();
    let mut plan = f.plan.clone();
    let mut tapes = f.tapes.clone();
    let mut cands = 0u64;
    let mut kept = 0u64;
    let budget = 600u64;
    let lenient = |p: &Value, t: &Tapes| sc.run(p, Mode::Replay { tapes: t.clone(), lenient: true });
    // 1. plan shrinking (greedy, restart after every success)
    'outer: loop {
        if cands >= budget || t0.elapsed().as_secs() > 20 {
            break;
        }
        for c in sc.shrink(&plan) {
            cands += 1;
            let mut out = lenient(&c, &tapes);
            if has_class(&out, &class).is_none() {
                // the recorded schedule may not fit the smaller plan: search a few fresh ones
                for k in 0..6u64 {
                    cands += 1;
                    out = sc.run(&c, Mode::Fresh(mix2(f.run_seed, 1000 + k)));
                    if has_class(&out, &class).is_some() {
                        break;
                    }
                }
            }
            if has_class(&out, &class).is_some() {
                plan = c;
                tapes = out.tapes;
                kept += 1;
                continue 'outer;
            }
            if cands >= budget {
                break 'outer;
            }
        }
        break;
    }
    // 2. fault shrinking: all spurious failures off, then one at a time; all ticks off
    if tapes.spur.iter().any(|&x| x != 0) {
        let mut t = tapes.clone();
        t.spur.iter_mut().for_each(|x| *x = 0);
        cands += 1;
        let out = lenient(&plan, &t);
        if has_class(&out, &class).is_some() {
            tapes = out.tapes;
            kept += 1;
        } else {
            let ones: Vec<usize> = tapes.spur.iter().enumerate().filter(|(_, &x)| x != 0).map(|(i, _)| i).collect();
            for i in ones {
                if cands >= budget {
                    break;
                }
                let mut t = tapes.clone();
                if i < t.spur.len() {
                    t.spur[i] = 0;
                }
                cands += 1;
                let out = lenient(&plan, &t);
                if has_class(&out, &class).is_some() {
                    tapes = out.tapes;
                    kept += 1;
                }
            }
        }
    }
    if tapes.ticks.iter().any(|&x| x != 0) {
        let mut t = tapes.clone();
        t.ticks.iter_mut().for_each(|x| *x = 0);
        cands += 1;
        let out = lenient(&plan, &t);
        if has_class(&out, &class).is_some() {
            tapes = out.tapes;
            kept += 1;
        }
    }
    // 3. schedule shrinking: remove context switches (extend the previous burst)
    let mut i = 1usize;
    while i < tapes.sched.len() && cands < budget && t0.elapsed().as_secs() < 30 {
        if tapes.sched[i] != tapes.sched[i - 1] {
            let mut t = tapes.clone();
            // let the previous thread run on through the whole next burst
            let prev = t.sched[i - 1];
            let mut j = i;
            let cur = t.sched[i];
            while j < t.sched.len() && t.sched[j] == cur {
                t.sched[j] = prev;
                j += 1;
            }
            cands += 1;
            let out = lenient(&plan, &t);
            if has_class(&out, &class).is_some() && switches(&out.tapes.sched) < switches(&tapes.sched) {
                tapes = out.tapes;
                kept += 1;
                continue;
            }
        }
        i += 1;
    }
    // final strict re-execution
    let out = sc.run(&plan, Mode::Replay { tapes: tapes.clone(), lenient: true });
    let (v, fp, tp) = match has_class(&out, &class) {
        Some(v) => (v, out.fingerprint, out.tapes),
        None => {
            // should not happen; fall back to the original
            let out = sc.run(&f.plan, Mode::Replay { tapes: f.tapes.clone(), lenient: true });
            plan = f.plan.clone();
            (has_class(&out, &class).unwrap_or(f.violation.clone()), out.fingerprint, out.tapes)
        }
    };
    (plan, tp, v, fp, json!({"candidates": cands, "kept": kept, "wall_s": t0.elapsed().as_secs_f64()}))
}

/// Run a command with a wall-clock limit; None on timeout.
fn output_with_timeout(mut cmd: std::process::Command, secs: u64) -> Option<std::process::Output> {
    let mut child = cmd.stdout(std::process::Stdio::piped()).stderr(std::process::Stdio::null()).spawn().ok()?;
    let t0 = Instant::now();
    loop {
        match child.try_wait() {
            Ok(Some(_)) => return child.wait_with_output().ok(),
            Ok(None) => {
                if t0.elapsed().as_secs() > secs {
                    let _ = child.kill();
                    let _ = child.wait();
                    return None;
                }
                std::thread::sleep(std::time::Duration::from_millis(5));
            }
            Err(_) => return None,
        }
    }
}

fn switches(s: &[u16]) -> usize {
    s.windows(2).filter(|w| w[0] != w[1]).count()
}

/// Exit code of `dsim replay <file>`: 1 reproduced (prints VIOLATION), 0 not reproduced, 2 harness error.
pub fn replay_main(sc_of: &dyn Fn(&str) -> Option<&'static dyn Scenario>, path: &str, quiet: bool) -> i32 {
    crate::seams::install_panic_hook();
    let s = match std::fs::read_to_string(path) {
        Ok(s) => s,
        Err(e) => {
            println!("HARNESS-ERROR cannot read {}: {}", path, e);
            return 2;
        }
    };
    let rf: ReplayFile = match serde_json::from_str(&s) {
        Ok(r) => r,
        Err(e) => {
            println!("HARNESS-ERROR cannot parse {}: {}", path, e);
            return 2;
        }
    };
    let sc = match sc_of(&rf.property) {
        Some(s) => s,
        None => {
            println!("HARNESS-ERROR unknown property {}", rf.property);
            return 2;
        }
    };
    let mode = match &rf.tapes {
        Some(t) => Mode::Replay { tapes: t.clone(), lenient: false },
        None => Mode::Fresh(rf.run_seed),
    };
    let out = sc.run(&rf.plan, mode);
    if out.outcome == Some(Outcome::Diverged) {
        println!("HARNESS-ERROR replay diverged from the recorded schedule ({})", path);
        return 2;
    }
    match has_class(&out, &rf.expect.class) {
        Some(v) => {
            if !quiet {
                println!("class={} key={}", v.class, v.key);
                println!("message: {}", v.msg);
                println!("fingerprint={:016x} expected={:016x} {}", out.fingerprint, rf.fingerprint, if out.fingerprint == rf.fingerprint { "identical" } else { "DIFFERENT" });
            }
            if rf.tapes.is_some() && out.fingerprint != rf.fingerprint {
                println!("HARNESS-ERROR replay reproduced the violation class but not the fingerprint");
                return 2;
            }
            println!("VIOLATION property={} replay={}", rf.property, path);
            1
        }
        None => {
            println!("NOT-REPRODUCED property={} class={} (fingerprint {:016x}, recorded {:016x})", rf.property, rf.expect.class, out.fingerprint, rf.fingerprint);
            0
        }
    }
}

pub struct CheckOpts {
    pub tier: Tier,
    pub seed: u64,
    pub jobs: usize,
    pub runs_override: Option<u64>,
    pub write_evidence: bool,
    /// extra coverage object merged into the evidence (e.g. the Miri cross-check summary)
    pub extra: Option<Value>,
}

pub fn check_main(sc: &'static dyn Scenario, o: &CheckOpts) -> i32 {
    let t0 = Instant::now();
    let id = sc.id();
    let total = o.runs_override.unwrap_or_else(|| sc.runs(o.tier));
    let jobs = o.jobs.max(1).min(total.max(1) as usize);
    let work = verif_dir().join("work");
    std::fs::create_dir_all(&work).ok();
    let exe = std::env::current_exe().unwrap();
    let per = total / jobs as u64;
    let mut children = vec![];
    let ncpu = unsafe { libc::sysconf(libc::_SC_NPROCESSORS_ONLN) }.max(1) as usize;
    for j in 0..jobs {
        let start = j as u64 * per;
        let count = if j == jobs - 1 { total - start } else { per };
        let prefix = work.join(format!("{}-{}-{}", id, std::process::id(), j));
        let child = std::process::Command::new(&exe)
            .args(["worker", id, o.tier.name(), &o.seed.to_string(), &start.to_string(), &count.to_string(), &(j % ncpu).to_string(), prefix.to_str().unwrap()])
            .stdout(std::process::Stdio::piped())
            .spawn()
            .expect("spawn worker");
        children.push((child, prefix, start, count));
    }
    // watchdog: real time is used only to turn a hung worker into a harness error
    let limit_s: u64 = std::env::var("VERIF_TIMEOUT_S").ok().and_then(|s| s.parse().ok()).unwrap_or(match o.tier {
        Tier::Quick => 900,
        Tier::Thorough => 7200,
    });
    let pids: Vec<u32> = children.iter().map(|c| c.0.id()).collect();
    let done = std::sync::Arc::new(std::sync::atomic::AtomicBool::new(false));
    let timed_out = std::sync::Arc::new(std::sync::atomic::AtomicBool::new(false));
    {
        let done = done.clone();
        let timed_out = timed_out.clone();
        std::thread::spawn(move || {
            let t0 = Instant::now();
            while !done.load(std::sync::atomic::Ordering::SeqCst) {
                if t0.elapsed().as_secs() > limit_s {
                    timed_out.store(true, std::sync::atomic::Ordering::SeqCst);
                    for p in &pids {
                        unsafe {
                            libc::kill(*p as i32, libc::SIGKILL);
                        }
                    }
                    return;
                }
                std::thread::sleep(std::time::Duration::from_millis(200));
            }
        });
    }
    let mut agg = WorkerSummary::default();
    let mut sigs: Vec<u64> = vec![];
    let mut crashed: Vec<(u64, String)> = vec![];
    for (mut child, prefix, _start, _count) in children {
        let mut outp = String::new();
        child.stdout.take().unwrap().read_to_string(&mut outp).ok();
        let status = child.wait().expect("wait worker");
        if !status.success() {
            let cur = std::fs::read(format!("{}.cur", prefix.display())).ok().and_then(|b| b.get(..8).map(|x| u64::from_le_bytes(x.try_into().unwrap())));
            crashed.push((cur.unwrap_or(u64::MAX), format!("{:?}", status)));
            let _ = std::fs::remove_file(format!("{}.cur", prefix.display()));
            continue;
        }
        let line = outp.lines().last().unwrap_or("");
        let s: WorkerSummary = match serde_json::from_str(line) {
            Ok(s) => s,
            Err(e) => {
                println!("HARNESS-ERROR worker output unparsable: {} ({:?})", e, line.chars().take(200).collect::<String>());
                return 2;
            }
        };
        if let Ok(b) = std::fs::read(format!("{}.sig", prefix.display())) {
            for c in b.chunks_exact(8) {
                sigs.push(u64::from_le_bytes(c.try_into().unwrap()));
            }
        }
        let _ = std::fs::remove_file(format!("{}.sig", prefix.display()));
        agg.runs += s.runs;
        agg.nontrivial += s.nontrivial;
        agg.steps += s.steps;
        agg.sim_ns += s.sim_ns;
        agg.inconclusive += s.inconclusive;
        agg.stuck += s.stuck;
        agg.faulty_cfg_runs += s.faulty_cfg_runs;
        agg.violating_runs += s.violating_runs;
        agg.known_finding_runs += s.known_finding_runs;
        agg.fp_xor ^= s.fp_xor;
        for (k, v) in s.faults {
            *agg.faults.entry(k).or_default() += v;
        }
        for (k, v) in s.probes {
            *agg.probes.entry(k).or_default() += v;
        }
        for (k, v) in s.strategies {
            *agg.strategies.entry(k).or_default() += v;
        }
        agg.violations.extend(s.violations);
        agg.samples.extend(s.samples);
    }
    done.store(true, std::sync::atomic::Ordering::SeqCst);
    if timed_out.load(std::sync::atomic::Ordering::SeqCst) {
        println!("HARNESS-ERROR workers exceeded the wall-clock limit of {} s and were killed (a library call outside the scheduler may be spinning for real)", limit_s);
        return 2;
    }
    sigs.sort_unstable();
    sigs.dedup();
    let distinct = sigs.len() as u64;
    agg.violations.sort_by_key(|f| f.index);

    let known = load_known();
    let mut exit = 0;
    let mut printed_known: BTreeSet<String> = BTreeSet::new();
    let mut reported: Vec<Value> = vec![];
    let mut unconfirmed: Vec<String> = vec![];
    // crashes first
    for (idx, status) in &crashed {
        if *idx == u64::MAX {
            println!("HARNESS-ERROR worker died ({}) without announcing a run", status);
            return 2;
        }
        let rs = run_seed(o.seed, id, *idx);
        let plan = sc.gen(rs, o.tier);
        let v = Violation::new(&format!("{}/crash", id), format!("{}/crash", id), format!("worker process died ({}) while executing run index {}", status, idx));
        let rf = ReplayFile { format: 1, property: id.into(), scenario: sc.name().into(), verif_seed: o.seed, index: *idx, run_seed: rs, repo_head: repo_head(), plan, tapes: None, expect: v.clone(), fingerprint: 0, minimiser: json!(null) };
        let dir = verif_dir().join("replays").join(id);
        std::fs::create_dir_all(&dir).ok();
        let path = dir.join(format!("{}-crash.json", rs));
        std::fs::write(&path, serde_json::to_string_pretty(&rf).unwrap()).ok();
        let mut cmd = std::process::Command::new(&exe);
        cmd.args(["replay", path.to_str().unwrap()]);
        let st = output_with_timeout(cmd, 60).map(|o| o.status);
        match st {
            Some(s) if s.code().is_none() || s.code().map(|c| c > 2).unwrap_or(false) => {
                println!("VIOLATION property={} replay={}", id, path.display());
                reported.push(json!({"class": v.class, "replay": path.display().to_string()}));
                exit = 1;
            }
            _ => {
                println!("HARNESS-ERROR worker died ({}) at run index {} but the run does not die when re-executed", status, idx);
                return 2;
            }
        }
    }
    // group violations by key
    let mut by_key: BTreeMap<String, Vec<&FoundViolation>> = BTreeMap::new();
    for f in &agg.violations {
        by_key.entry(f.violation.key.clone()).or_default().push(f);
    }
    let mut minimised_classes: BTreeMap<String, u32> = BTreeMap::new();
    let mut keys: Vec<(&String, &Vec<&FoundViolation>)> = by_key.iter().collect();
    keys.sort_by_key(|(_, v)| v[0].index);
    for (key, fs) in keys {
        if let Some(k) = known.iter().find(|k| k.property == id && &k.key == key) {
            if printed_known.insert(key.clone()) {
                println!("KNOWN-FINDING: property={} {} [key {}; e.g. run index {}]", id, k.what, key, fs[0].index);
            }
            continue;
        }
        exit = 1;
        let f = fs[0];
        let n = minimised_classes.entry(f.violation.class.clone()).or_default();
        *n += 1;
        if *n > 3 || reported.len() >= 8 {
            println!("  (further violation key {} at run index {} not minimised: {})", key, f.index, f.violation.msg);
            continue;
        }
        let (plan, tapes, v, fp, mini) = minimise(sc, f);
        let dir = verif_dir().join("replays").join(id);
        std::fs::create_dir_all(&dir).ok();
        let orig = ReplayFile { format: 1, property: id.into(), scenario: sc.name().into(), verif_seed: o.seed, index: f.index, run_seed: f.run_seed, repo_head: repo_head(), plan: f.plan.clone(), tapes: Some(f.tapes.clone()), expect: f.violation.clone(), fingerprint: f.fingerprint, minimiser: json!(null) };
        let clause: String = f.violation.key.chars().map(|c| if c.is_ascii_alphanumeric() { c } else { '_' }).collect();
        let opath = dir.join(format!("{}-{}.orig.json", f.run_seed, clause));
        std::fs::write(&opath, serde_json::to_string_pretty(&orig).unwrap()).ok();
        let rf = ReplayFile { format: 1, property: id.into(), scenario: sc.name().into(), verif_seed: o.seed, index: f.index, run_seed: f.run_seed, repo_head: repo_head(), plan, tapes: Some(tapes), expect: v.clone(), fingerprint: fp, minimiser: mini };
        let path = dir.join(format!("{}-{}.json", f.run_seed, clause));
        std::fs::write(&path, serde_json::to_string_pretty(&rf).unwrap()).ok();
        // confirm in a fresh process
        let mut cmd = std::process::Command::new(&exe);
        cmd.args(["replay", path.to_str().unwrap(), "--quiet"]);
        let st = output_with_timeout(cmd, 60);
        let ok = matches!(&st, Some(o) if o.status.code() == Some(1));
        if !ok {
            // minimised file does not replay: fall back to the original recording
            let mut cmd2 = std::process::Command::new(&exe);
            cmd2.args(["replay", opath.to_str().unwrap(), "--quiet"]);
            let st2 = output_with_timeout(cmd2, 60);
            if matches!(&st2, Some(o) if o.status.code() == Some(1)) {
                println!("  [{}] {}", f.violation.class, f.violation.msg);
                println!("VIOLATION property={} replay={}", id, opath.display());
                reported.push(json!({"class": f.violation.class, "key": key, "replay": opath.display().to_string(), "message": f.violation.msg}));
                continue;
            }
            if !reported.is_empty() {
                // other violations of this batch replayed exactly and were reported; this one was seen in
                // a worker process but depends on something a fresh process does not reproduce (state
                // that leaked into a process-global object): say so, keep the confirmed verdict
                println!("  (violation key {} at run index {} was observed but does not replay in a fresh process: {})", key, f.index, f.violation.msg);
                continue;
            }
            unconfirmed.push(format!("violation {} (run index {}) does not reproduce from its replay file {}: {:?}", key, f.index, path.display(), st.map(|o| String::from_utf8_lossy(&o.stdout).to_string())));
            continue;
        }
        println!("  [{}] {}", v.class, v.msg);
        println!("VIOLATION property={} replay={}", id, path.display());
        reported.push(json!({"class": v.class, "key": key, "replay": path.display().to_string(), "message": v.msg}));
    }

    if reported.is_empty() && !unconfirmed.is_empty() {
        println!("HARNESS-ERROR {}", unconfirmed[0]);
        return 2;
    }
    let wall = t0.elapsed().as_secs_f64();
    let info = sc.info();
    let incon_rate = agg.inconclusive as f64 / agg.runs.max(1) as f64;
    let mut warnings = vec![];
    for p in &info.expected_probes {
        if agg.probes.get(*p).copied().unwrap_or(0) == 0 {
            warnings.push(format!("probe {} never fired", p));
        }
    }
    if o.write_evidence {
        let mut samples = agg.samples.clone();
        samples.sort_by_key(|s| s["index"].as_u64().unwrap_or(0));
        samples.truncate(3);
        if samples.is_empty() {
            samples.push(json!({"note": "no non-trivial run in this batch"}));
        }
        let ev = json!({
            "property_id": id,
            "tier": o.tier.name(),
            "seed": o.seed,
            "level": "exploration",
            "wall_s": wall,
            "violations": reported.len(),
            "assumptions": info.assumptions,
            "coverage": {
                "evaluations": agg.runs,
                "distinct_nontrivial": distinct,
                "rule": info.rule,
                "samples": samples,
                "scenario": sc.name(),
                "runs_per_hour": (agg.runs as f64 / wall.max(1e-9) * 3600.0) as u64,
                "steps": agg.steps,
                "simulated_seconds": agg.sim_ns as f64 / 1e9,
                "nontrivial_runs": agg.nontrivial,
                "strategies": agg.strategies,
                "faults_fired": agg.faults,
                "sub_batches": {"fault_injecting_runs": agg.faulty_cfg_runs, "fault_free_runs": agg.runs - agg.faulty_cfg_runs},
                "probes": agg.probes,
                "inconclusive": agg.inconclusive,
                "stuck_runs": agg.stuck,
                "violating_runs": agg.violating_runs,
                "known_finding_runs": agg.known_finding_runs,
                "known_findings_printed": printed_known.iter().collect::<Vec<_>>(),
                "reported": reported,
                "warnings": warnings,
                "real_components": info.real,
                "stubbed_components": info.stubbed,
                "jobs": jobs,
                "batch_fingerprint": format!("{:016x}", agg.fp_xor),
                "repo_head": repo_head(),
            }
        });
        let mut ev = ev;
        if let Some(x) = &o.extra {
            ev["coverage"]["cross_check"] = x.clone();
        }
        let dir = verif_dir().join("evidence");
        std::fs::create_dir_all(&dir).ok();
        let mut f = std::fs::File::create(dir.join(format!("{}.json", id))).expect("evidence file");
        f.write_all(serde_json::to_string_pretty(&ev).unwrap().as_bytes()).unwrap();
    }
    println!(
        "{} {} seed={} runs={} nontrivial={} distinct_signatures={} steps={} violations={} known={} inconclusive={} stuck={} wall={:.1}s fp={:016x}",
        id,
        o.tier.name(),
        o.seed,
        agg.runs,
        agg.nontrivial,
        distinct,
        agg.steps,
        reported.len(),
        printed_known.len(),
        agg.inconclusive,
        agg.stuck,
        wall,
        agg.fp_xor
    );
    for w in &warnings {
        println!("warning: {}", w);
    }
    if exit == 0 && incon_rate > 0.001 {
        println!("HARNESS-ERROR {} of {} runs inconclusive (step cap)", agg.inconclusive, agg.runs);
        return 2;
    }
    exit
}
