//! Local PRNG (splitmix64) so that no dependency can change a sequence.

#[derive(Clone, Debug)]
pub struct Rng(pub u64);

pub fn splitmix(mut z: u64) -> u64 {
    z = z.wrapping_add(0x9E3779B97F4A7C15);
    z = (z ^ (z >> 30)).wrapping_mul(0xBF58476D1CE4E5B9);
    z = (z ^ (z >> 27)).wrapping_mul(0x94D049BB133111EB);
    z ^ (z >> 31)
}

pub fn mix2(a: u64, b: u64) -> u64 {
    splitmix(a ^ splitmix(b).rotate_left(23))
}

impl Rng {
    /// Independent stream `stream` of seed `seed`.
    pub fn new(seed: u64, stream: u64) -> Rng {
        let mut r = Rng(splitmix(seed) ^ stream.wrapping_mul(0xD6E8FEB86659FD93));
        r.next();
        r
    }
    pub fn next(&mut self) -> u64 {
        self.0 = self.0.wrapping_add(0x9E3779B97F4A7C15);
        let mut z = self.0;
        z = (z ^ (z >> 30)).wrapping_mul(0xBF58476D1CE4E5B9);
        z = (z ^ (z >> 27)).wrapping_mul(0x94D049BB133111EB);
        z ^ (z >> 31)
    }
    pub fn below(&mut self, n: u64) -> u64 {
        if n == 0 {
            0
        } else {
            self.next() % n
        }
    }
    pub fn range(&mut self, lo: u64, hi_incl: u64) -> u64 {
        lo + self.below(hi_incl - lo + 1)
    }
    pub fn chance(&mut self, pct: u64) -> bool {
        self.below(100) < pct
    }
    pub fn pick<'a, T>(&mut self, v: &'a [T]) -> &'a T {
        &v[self.below(v.len() as u64) as usize]
    }
    pub fn shuffle<T>(&mut self, v: &mut [T]) {
        for i in (1..v.len()).rev() {
            let j = self.below(i as u64 + 1) as usize;
            v.swap(i, j);
        }
    }
}

/// FNV-1a incremental hasher used for fingerprints.
#[derive(Clone, Copy, Debug)]
pub struct Fp(pub u64);
impl Default for Fp {
    fn default() -> Self {
        Fp(0xcbf29ce484222325)
    }
}
impl Fp {
    #[inline]
    pub fn u64(&mut self, v: u64) {
        let mut h = self.0;
        let mut x = v;
        for _ in 0..8 {
            h ^= x & 0xff;
            h = h.wrapping_mul(0x100000001b3);
            x >>= 8;
        }
        self.0 = h;
    }
    pub fn bytes(&mut self, b: &[u8]) {
        for &x in b {
            self.0 ^= x as u64;
            self.0 = self.0.wrapping_mul(0x100000001b3);
        }
        self.u64(b.len() as u64);
    }
    pub fn str(&mut self, s: &str) {
        self.bytes(s.as_bytes())
    }
}
