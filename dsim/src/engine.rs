//! Deterministic scheduler ("baton" over real OS threads), discrete-event clock,
//! fault injection at the shim, vector clocks, event log, tapes for replay.
use crate::rng::{mix2, Fp, Rng};
use prometheus::verif::{self, Directive, Hooks, Op, OpKind};
use serde::{Deserialize, Serialize};
use std::cell::RefCell;
use std::collections::HashMap;
use std::sync::atomic::Ordering as O;
use std::sync::{Arc, Condvar, Mutex, MutexGuard};

pub const QUANTUM_NS: u64 = 1_953_125; // 2^-9 s: integral ns and exact f64 seconds
pub const BASE_NS: u64 = 3_600_000_000_000;

#[derive(Serialize, Deserialize, Clone, Debug, PartialEq)]
pub enum Strategy {
    Uniform,
    Sticky(u32),
    Pct(u32),
}

#[derive(Serialize, Deserialize, Clone, Debug, PartialEq)]
pub struct Stall {
    pub thread: usize,
    pub at: u32,
    pub len: u32,
}

/// Environment part of a plan: everything the simulator needs besides the workload.
#[derive(Serialize, Deserialize, Clone, Debug, PartialEq)]
pub struct Env {
    pub strategy: Strategy,
    pub spurious_pct: u32,
    pub tick_pct: u32,
    pub stall: Option<Stall>,
    pub hash_seed: u64,
    pub hb: bool,
    pub max_steps: u64,
    #[serde(default)]
    pub join_on_exit: bool,
    /// a scheduling point right AFTER every lock acquisition: a lock-held window that contains no
    /// other visible operation would otherwise be atomic, and no try_lock / try_read / try_write of
    /// another thread could ever find the lock taken
    #[serde(default)]
    pub yield_in_locks: bool,
}

impl Env {
    pub fn basic(hash_seed: u64) -> Env {
        Env { strategy: Strategy::Uniform, spurious_pct: 0, tick_pct: 0, stall: None, hash_seed, hb: false, max_steps: 20_000, join_on_exit: false, yield_in_locks: false }
    }
    /// Swarm-style environment drawn from `r`; `faults` false gives the fault-free sub-batch.
    pub fn swarm(r: &mut Rng, nthreads: usize, est_steps: u64, faults: bool) -> Env {
        let strategy = match r.below(10) {
            0..=2 => Strategy::Uniform,
            3..=6 => Strategy::Sticky(*r.pick(&[50u32, 80, 95])),
            _ => Strategy::Pct(1 + r.below(3) as u32),
        };
        let spurious_pct = if faults && r.chance(60) { *r.pick(&[3u32, 5, 10]) } else { 0 };
        let stall = if faults && nthreads > 1 && r.chance(40) {
            Some(Stall { thread: r.below(nthreads as u64) as usize, at: r.below(est_steps.max(1) / nthreads as u64 + 1) as u32, len: 5 + r.below(40) as u32 })
        } else {
            None
        };
        let hash_seed = r.next();
        // drawn from a stream of its own, so that plans stay what they were
        let yield_in_locks = nthreads > 1 && Rng::new(hash_seed, 77).chance(25);
        Env { strategy, spurious_pct, tick_pct: 0, stall, hash_seed, hb: false, max_steps: est_steps * 20 + 2000, join_on_exit: false, yield_in_locks }
    }
}

#[derive(Serialize, Deserialize, Clone, Debug, Default, PartialEq)]
pub struct Tapes {
    #[serde(with = "rle16")]
    pub sched: Vec<u16>,
    #[serde(with = "rle8")]
    pub spur: Vec<u8>,
    #[serde(with = "rle8")]
    pub ticks: Vec<u8>,
}

mod rle16 {
    use serde::{Deserialize, Deserializer, Serialize, Serializer};
    pub fn serialize<S: Serializer>(v: &[u16], s: S) -> Result<S::Ok, S::Error> {
        let mut out: Vec<(u16, u32)> = vec![];
        for &x in v {
            match out.last_mut() {
                Some((y, n)) if *y == x => *n += 1,
                _ => out.push((x, 1)),
            }
        }
        out.serialize(s)
    }
    pub fn deserialize<'de, D: Deserializer<'de>>(d: D) -> Result<Vec<u16>, D::Error> {
        let v: Vec<(u16, u32)> = Vec::deserialize(d)?;
        let mut out = vec![];
        for (x, n) in v {
            for _ in 0..n {
                out.push(x);
            }
        }
        Ok(out)
    }
}
mod rle8 {
    use serde::{Deserialize, Deserializer, Serialize, Serializer};
    pub fn serialize<S: Serializer>(v: &[u8], s: S) -> Result<S::Ok, S::Error> {
        let mut out: Vec<(u8, u32)> = vec![];
        for &x in v {
            match out.last_mut() {
                Some((y, n)) if *y == x => *n += 1,
                _ => out.push((x, 1)),
            }
        }
        out.serialize(s)
    }
    pub fn deserialize<'de, D: Deserializer<'de>>(d: D) -> Result<Vec<u8>, D::Error> {
        let v: Vec<(u8, u32)> = Vec::deserialize(d)?;
        let mut out = vec![];
        for (x, n) in v {
            for _ in 0..n {
                out.push(x);
            }
        }
        Ok(out)
    }
}

#[derive(Clone, Debug)]
pub enum Mode {
    /// Draw every decision from PRNG streams of this seed.
    Fresh(u64),
    /// Take every decision from the tapes. `lenient`: an impossible or missing entry
    /// falls back to a default instead of reporting divergence (used by the minimiser).
    Replay { tapes: Tapes, lenient: bool },
}

#[derive(Clone, Debug, PartialEq)]
pub enum Outcome {
    Finished,
    Stuck,
    StepCap,
    Diverged,
}

#[derive(Clone, Copy, Debug, PartialEq)]
pub enum Phase {
    Invoke,
    Return,
}

#[derive(Clone, Debug)]
pub enum Ev {
    Op { t: u8, kind: OpKind, loc: u32, ord: O, a: u64, b: u64, res: u64, ok: bool, spurious: bool, line: u32 },
    Api { t: u8, op: u32, phase: Phase },
    Clock { t: u8, now: u64 },
    Note { t: u8, code: u32, val: u64 },
}

pub struct RunResult {
    pub outcome: Outcome,
    pub log: Vec<Ev>,
    pub tapes: Tapes,
    pub steps: u64,
    pub decisions: u64,
    pub races: Vec<String>,
    pub fingerprint: u64,
    pub signature: u64,
    pub overlaps: u64,
    pub sim_ns: u64,
    pub spurious_fired: u64,
    pub stall_fired: u64,
    pub ticks_fired: u64,
    pub real_cas_conflicts: u64,
    pub lock_blocked: u64,
    pub spin_blocked: u64,
    pub panics: Vec<(usize, String)>,
    pub nthreads: usize,
}

// ------------------------------------------------------------------ state
#[derive(Clone, Copy, PartialEq, Debug)]
enum Status {
    NotStarted,
    Ready,
    Spin(u32, u64),
    Sleeping(u64),
    /// waits until every other foreground thread is done (quiescence reads run under the scheduler)
    WaitAll,
    Exiting,
    Done,
}
struct Th {
    status: Status,
    pending: Option<(OpKind, u32)>,
    daemon: bool,
    cv: Arc<Condvar>,
    last_fail: Option<(u32, u64, u64, u64)>,
    /// (loc, result, version, repetitions) of the last read-only operation: a thread that keeps
    /// re-reading an unchanged cell inside one API call is in a spin-wait loop
    last_read: Option<(u32, u64, u64, u32)>,
    spur: bool,
    vc: Vec<u32>,
    prio: u64,
    vis_ops: u32,
    in_api: bool,
}
#[derive(Default, Clone)]
struct LockSt {
    writer: Option<usize>,
    readers: Vec<usize>,
}
#[derive(Default, Clone)]
struct LocSt {
    version: u64,
    chain: u64,
    racc: u64,
    lock: LockSt,
    rel: Vec<u32>,
    lockvc: Vec<u32>,
    lastmod: Vec<u32>,
    lastswap: Option<(usize, u32)>,
}
struct St {
    env: Env,
    replay: Option<(Tapes, bool)>,
    th: Vec<Th>,
    cur: Option<usize>,
    shutdown: bool,
    rng_sched: Rng,
    rng_fault: Rng,
    rng_clock: Rng,
    loc_ids: HashMap<usize, u32>,
    locs: Vec<LocSt>,
    now: u64,
    log: Vec<Ev>,
    fp: Fp,
    tapes: Tapes,
    n_spur: usize,
    n_tick: usize,
    steps: u64,
    decisions: u64,
    outcome: Option<Outcome>,
    races: Vec<String>,
    spurious_fired: u64,
    stall_until: Option<u64>,
    stall_fired: u64,
    ticks_fired: u64,
    real_cas_conflicts: u64,
    lock_blocked: u64,
    spin_blocked: u64,
    overlaps: u64,
    panics: Vec<(usize, String)>,
    pct_points: Vec<u64>,
    handles: Vec<Option<std::thread::JoinHandle<()>>>,
    joiner: Option<usize>,
}
pub struct Sim {
    st: Mutex<St>,
    ctl: Condvar,
}
struct Shutdown;

thread_local! {
    static CUR: RefCell<Option<(Arc<Sim>, usize)>> = const { RefCell::new(None) };
}

fn vget(v: &[u32], i: usize) -> u32 {
    v.get(i).copied().unwrap_or(0)
}
fn vjoin(a: &mut Vec<u32>, b: &[u32]) {
    if a.len() < b.len() {
        a.resize(b.len(), 0);
    }
    for i in 0..b.len() {
        if b[i] > a[i] {
            a[i] = b[i];
        }
    }
}
fn ord_code(o: O) -> u64 {
    match o {
        O::Relaxed => 0,
        O::Release => 1,
        O::Acquire => 2,
        O::AcqRel => 3,
        _ => 4,
    }
}

impl St {
    fn loc(&mut self, addr: usize) -> u32 {
        let n = self.loc_ids.len() as u32;
        let id = *self.loc_ids.entry(addr).or_insert(n);
        if self.locs.len() <= id as usize {
            self.locs.resize(id as usize + 1, LocSt::default());
        }
        id
    }
    fn enabled_nostall(&self, i: usize) -> bool {
        let t = &self.th[i];
        match t.status {
            Status::Ready => match t.pending {
                Some((OpKind::MutexLock, l)) | Some((OpKind::RwWriteLock, l)) => {
                    let s = &self.locs[l as usize].lock;
                    s.writer.is_none() && s.readers.is_empty()
                }
                Some((OpKind::RwReadLock, l)) => self.locs[l as usize].lock.writer.is_none(),
                _ => true,
            },
            Status::Spin(l, v) => self.locs[l as usize].version != v,
            Status::Sleeping(until) => self.now >= until,
            Status::WaitAll => self.th.iter().enumerate().all(|(j, o)| j == i || o.daemon || o.status == Status::Done),
            _ => false,
        }
    }
    fn stalled(&self, i: usize) -> bool {
        match (&self.env.stall, self.stall_until) {
            (Some(s), Some(u)) => s.thread == i && self.decisions < u,
            _ => false,
        }
    }
    fn foreground_done(&self) -> bool {
        self.th.iter().all(|t| t.daemon || t.status == Status::Done)
    }
    fn push(&mut self, e: Ev) {
        match &e {
            Ev::Op { t, kind, loc, ord, a, b, res, ok, spurious, line } => {
                self.fp.u64(1 | (*t as u64) << 8 | (*kind as u64) << 16 | (*loc as u64) << 32);
                self.fp.u64(ord_code(*ord) | (*ok as u64) << 8 | (*spurious as u64) << 9 | (*line as u64) << 16);
                self.fp.u64(*a);
                self.fp.u64(*b);
                self.fp.u64(*res);
            }
            Ev::Api { t, op, phase } => self.fp.u64(2 | (*t as u64) << 8 | (*op as u64) << 16 | ((*phase == Phase::Return) as u64) << 60),
            Ev::Clock { t, now } => {
                self.fp.u64(3 | (*t as u64) << 8);
                self.fp.u64(*now);
            }
            Ev::Note { t, code, val } => {
                self.fp.u64(4 | (*t as u64) << 8 | (*code as u64) << 16);
                self.fp.u64(*val);
            }
        }
        self.log.push(e);
    }
    /// Decide who runs next. None = run over (outcome set) or controller must act (joiner set).
    fn pick(&mut self, me: Option<usize>) -> Option<usize> {
        if self.joiner.is_some() {
            return None;
        }
        if self.foreground_done() {
            self.outcome = Some(Outcome::Finished);
            return None;
        }
        if self.steps > self.env.max_steps {
            self.outcome = Some(Outcome::StepCap);
            return None;
        }
        loop {
            let mut en: Vec<usize> = (0..self.th.len()).filter(|&i| self.enabled_nostall(i)).collect();
            if en.is_empty() {
                let wake = self.th.iter().filter_map(|t| if let Status::Sleeping(u) = t.status { Some(u) } else { None }).min();
                match wake {
                    Some(u) if u > self.now => {
                        let fg_waiting_on_time = self.th.iter().any(|t| !t.daemon && matches!(t.status, Status::Sleeping(_)));
                        if !fg_waiting_on_time {
                            // only daemons sleep; foreground threads are blocked on locks/spins that
                            // a daemon tick cannot release: give simulated time a bounded chance.
                            if u > BASE_NS + 3_600_000_000_000 {
                                self.outcome = Some(Outcome::Stuck);
                                return None;
                            }
                            // daemons of this crate only tick the clock; they never unblock a lock
                            self.outcome = Some(Outcome::Stuck);
                            return None;
                        }
                        self.now = u;
                        continue;
                    }
                    _ => {
                        if std::env::var("DSIM_DEBUG").is_ok() {
                            eprintln!("STUCK: {:?}", self.th.iter().map(|t| (t.status, t.pending, t.daemon)).collect::<Vec<_>>());
                        }
                        self.outcome = Some(Outcome::Stuck);
                        return None;
                    }
                }
            }
            // statistics about blocking
            for i in 0..self.th.len() {
                if !en.contains(&i) {
                    match self.th[i].status {
                        Status::Ready if self.th[i].pending.is_some() => self.lock_blocked += 1,
                        Status::Spin(..) => self.spin_blocked += 1,
                        _ => {}
                    }
                }
            }
            // a stall removes its thread from the choice unless nothing else could run
            if en.len() > 1 {
                let before = en.len();
                let keep: Vec<usize> = en.iter().copied().filter(|&i| !self.stalled(i)).collect();
                if !keep.is_empty() && keep.len() < before {
                    self.stall_fired += 1;
                    en = keep;
                }
            }
            let fallback = |en: &Vec<usize>| match me {
                Some(m) if en.contains(&m) => m,
                _ => en[0],
            };
            let choice = if let Some((tapes, lenient)) = &self.replay {
                let idx = self.tapes.sched.len();
                // replay ignores stalls: recompute enabled set without the stall filter
                let en_all: Vec<usize> = (0..self.th.len()).filter(|&i| self.enabled_nostall(i)).collect();
                match tapes.sched.get(idx) {
                    Some(&c) if en_all.contains(&(c as usize)) => c as usize,
                    _ if *lenient => fallback(&en_all),
                    _ => {
                        self.outcome = Some(Outcome::Diverged);
                        return None;
                    }
                }
            } else {
                match self.env.strategy {
                    Strategy::Uniform => en[self.rng_sched.below(en.len() as u64) as usize],
                    Strategy::Sticky(p) => match me {
                        Some(m) if en.contains(&m) && self.rng_sched.chance(p as u64) => m,
                        _ => en[self.rng_sched.below(en.len() as u64) as usize],
                    },
                    Strategy::Pct(_) => {
                        if self.pct_points.contains(&self.decisions) {
                            if let Some(m) = me {
                                self.th[m].prio = self.rng_sched.below(1000);
                            }
                        }
                        *en.iter().max_by_key(|&&i| (self.th[i].prio, usize::MAX - i)).unwrap()
                    }
                }
            };
            self.decisions += 1;
            self.tapes.sched.push(choice as u16);
            if let Status::Spin(..) | Status::Sleeping(_) | Status::WaitAll = self.th[choice].status {
                self.th[choice].status = Status::Ready;
            }
            return Some(choice);
        }
    }
    fn decide_spurious(&mut self) -> bool {
        let n = self.n_spur;
        self.n_spur += 1;
        let v = if let Some((tapes, _)) = &self.replay {
            tapes.spur.get(n).copied().unwrap_or(0) != 0
        } else {
            self.env.spurious_pct > 0 && self.rng_fault.chance(self.env.spurious_pct as u64)
        };
        self.tapes.spur.push(v as u8);
        v
    }
    fn decide_tick(&mut self) {
        if self.replay.is_none() && self.env.tick_pct == 0 {
            return;
        }
        let n = self.n_tick;
        self.n_tick += 1;
        let v = if let Some((tapes, _)) = &self.replay {
            tapes.ticks.get(n).copied().unwrap_or(0)
        } else if self.rng_clock.chance(self.env.tick_pct as u64) {
            1 + (self.rng_clock.below(8) == 0) as u8 * self.rng_clock.below(200) as u8
        } else {
            0
        };
        self.tapes.ticks.push(v);
        if v > 0 {
            self.ticks_fired += 1;
            self.now += v as u64 * QUANTUM_NS;
        }
    }
}

impl Sim {
    pub fn new(env: Env, mode: Mode) -> Arc<Sim> {
        let (seed, replay) = match mode {
            Mode::Fresh(s) => (s, None),
            Mode::Replay { tapes, lenient } => (0, Some((tapes, lenient))),
        };
        let mut rs = Rng::new(seed, 2);
        let horizon = (env.max_steps / 20).max(8);
        let pct_points = match env.strategy {
            Strategy::Pct(d) => (0..d).map(|_| rs.below(horizon)).collect(),
            _ => vec![],
        };
        Arc::new(Sim {
            st: Mutex::new(St {
                env,
                replay,
                th: vec![],
                cur: None,
                shutdown: false,
                rng_sched: rs,
                rng_fault: Rng::new(seed, 3),
                rng_clock: Rng::new(seed, 5),
                loc_ids: HashMap::new(),
                locs: vec![],
                now: BASE_NS,
                log: Vec::with_capacity(256),
                fp: Fp::default(),
                tapes: Tapes::default(),
                n_spur: 0,
                n_tick: 0,
                steps: 0,
                decisions: 0,
                outcome: None,
                races: vec![],
                spurious_fired: 0,
                stall_until: None,
                stall_fired: 0,
                ticks_fired: 0,
                real_cas_conflicts: 0,
                lock_blocked: 0,
                spin_blocked: 0,
                overlaps: 0,
                panics: vec![],
                pct_points,
                handles: vec![],
                joiner: None,
            }),
            ctl: Condvar::new(),
        })
    }

    fn pass<'a>(self: &'a Arc<Self>, st: &mut MutexGuard<'a, St>, me: Option<usize>) {
        match st.pick(me) {
            Some(n) => {
                st.cur = Some(n);
                if Some(n) != me {
                    st.th[n].cv.notify_one();
                }
            }
            None => {
                st.cur = None;
                self.ctl.notify_all();
            }
        }
    }

    /// Pass the baton according to the scheduler and wait until it comes back to `me`.
    fn handoff<'a>(self: &'a Arc<Self>, mut st: MutexGuard<'a, St>, me: usize) -> MutexGuard<'a, St> {
        self.pass(&mut st, Some(me));
        let cv = st.th[me].cv.clone();
        while st.cur != Some(me) && !st.shutdown {
            st = cv.wait(st).unwrap();
        }
        if st.shutdown && st.cur != Some(me) {
            if std::thread::panicking() {
                // a destructor running while the thread unwinds from an (injected) panic must not
                // unwind again; after shutdown every hook lets operations through unscheduled
                return st;
            }
            drop(st);
            std::panic::resume_unwind(Box::new(Shutdown));
        }
        st
    }

    pub fn spawn<F: FnOnce(&Ctx) + Send + 'static>(self: &Arc<Self>, name: &str, daemon: bool, f: F) -> usize {
        let mut st = self.st.lock().unwrap();
        let id = st.th.len();
        let n = id + 1;
        let prio = 1000 + st.rng_sched.below(1000);
        for t in st.th.iter_mut() {
            t.vc.resize(n, 0);
        }
        let mut vc = vec![0u32; n];
        vc[id] = 1;
        if let Some(c) = st.cur {
            let pvc = st.th[c].vc.clone();
            vjoin(&mut vc, &pvc);
        }
        let hash_seed = mix2(st.env.hash_seed, id as u64 + 1);
        st.th.push(Th { status: Status::NotStarted, pending: None, daemon, cv: Arc::new(Condvar::new()), last_fail: None, last_read: None, spur: false, vc, prio, vis_ops: 0, in_api: false });
        let sim = self.clone();
        let h = std::thread::Builder::new()
            .name(name.to_string())
            .stack_size(512 * 1024)
            .spawn(move || {
                crate::seams::set_hash_seed(hash_seed);
                let ctx = Ctx { sim: sim.clone(), me: id };
                {
                    let mut st = sim.st.lock().unwrap();
                    st.th[id].status = Status::Ready;
                    sim.ctl.notify_all();
                    let cv = st.th[id].cv.clone();
                    while st.cur != Some(id) && !st.shutdown {
                        st = cv.wait(st).unwrap();
                    }
                    if st.shutdown && st.cur != Some(id) {
                        return;
                    }
                }
                verif::install(Some(Arc::new(H { sim: sim.clone(), me: id })));
                CUR.with(|c| *c.borrow_mut() = Some((sim.clone(), id)));
                let r = std::panic::catch_unwind(std::panic::AssertUnwindSafe(|| f(&ctx)));
                CUR.with(|c| *c.borrow_mut() = None);
                let join_on_exit = sim.st.lock().unwrap().env.join_on_exit;
                if !join_on_exit {
                    verif::install(None);
                }
                let mut st = sim.st.lock().unwrap();
                if let Err(e) = r {
                    if e.is::<Shutdown>() {
                        return;
                    }
                    let msg = e.downcast_ref::<String>().cloned().or_else(|| e.downcast_ref::<&str>().map(|s| s.to_string())).unwrap_or_else(|| "<non-string panic>".into());
                    let loc = crate::seams::take_panic_location();
                    st.panics.push((id, format!("{} @ {}", msg, loc)));
                }
                if st.shutdown {
                    return;
                }
                if join_on_exit {
                    // TLS destructors of this thread run after this closure returns; the
                    // controller joins the OS thread before anything else is scheduled.
                    st.th[id].status = Status::Exiting;
                    st.joiner = Some(id);
                    st.cur = None;
                    sim.ctl.notify_all();
                } else {
                    st.th[id].status = Status::Done;
                    sim.pass(&mut st, None);
                }
            })
            .unwrap();
        st.handles.push(Some(h));
        while st.th[id].status == Status::NotStarted {
            st = self.ctl.wait(st).unwrap();
        }
        id
    }

    pub fn run(self: &Arc<Self>) -> RunResult {
        let mut st = self.st.lock().unwrap();
        while st.th.iter().any(|t| t.status == Status::NotStarted) {
            st = self.ctl.wait(st).unwrap();
        }
        self.pass(&mut st, None);
        loop {
            while st.outcome.is_none() && st.joiner.is_none() {
                st = self.ctl.wait(st).unwrap();
            }
            if st.outcome.is_some() {
                break;
            }
            let j = st.joiner.unwrap();
            let h = st.handles[j].take();
            drop(st);
            if let Some(h) = h {
                // the exiting thread still has its hooks installed: its TLS destructors run
                // with the baton logically held by it (cur == None, nobody else runs)
                let _ = h.join();
            }
            st = self.st.lock().unwrap();
            st.joiner = None;
            st.th[j].status = Status::Done;
            self.pass(&mut st, None);
        }
        st.shutdown = true;
        st.cur = None;
        for t in st.th.iter() {
            t.cv.notify_all();
        }
        let handles: Vec<_> = st.handles.drain(..).collect();
        let outcome = st.outcome.clone().unwrap();
        drop(st);
        for h in handles.into_iter().flatten() {
            let _ = h.join();
        }
        let mut st = self.st.lock().unwrap();
        let mut signature = 0u64;
        for l in &st.locs {
            signature = signature.wrapping_add(mix2(l.chain, l.racc));
        }
        RunResult {
            outcome,
            log: std::mem::take(&mut st.log),
            tapes: std::mem::take(&mut st.tapes),
            steps: st.steps,
            decisions: st.decisions,
            races: std::mem::take(&mut st.races),
            fingerprint: st.fp.0,
            signature,
            overlaps: st.overlaps,
            sim_ns: st.now - BASE_NS,
            spurious_fired: st.spurious_fired,
            stall_fired: st.stall_fired,
            ticks_fired: st.ticks_fired,
            real_cas_conflicts: st.real_cas_conflicts,
            lock_blocked: st.lock_blocked,
            spin_blocked: st.spin_blocked,
            panics: std::mem::take(&mut st.panics),
            nthreads: st.th.len(),
        }
    }
}

pub struct Ctx {
    sim: Arc<Sim>,
    pub me: usize,
}
impl Ctx {
    /// API call starts: a scheduling point, then the invoke marker is stamped.
    pub fn invoke(&self, op: u32) -> usize {
        api_invoke(&self.sim, self.me, op)
    }
    pub fn ret(&self, op: u32) -> usize {
        let mut st = self.sim.st.lock().unwrap();
        let t = self.me as u8;
        st.th[self.me].in_api = false;
        st.push(Ev::Api { t, op, phase: Phase::Return });
        st.log.len() - 1
    }
    pub fn advance(&self, quanta: u64) {
        let mut st = self.sim.st.lock().unwrap();
        st.now += quanta * QUANTUM_NS;
    }
    pub fn note(&self, code: u32, val: u64) {
        let mut st = self.sim.st.lock().unwrap();
        let t = self.me as u8;
        st.push(Ev::Note { t, code, val });
    }
    pub fn seq(&self) -> usize {
        self.sim.st.lock().unwrap().log.len()
    }
    pub fn yield_now(&self) {
        yield_point(&self.sim, self.me);
    }
    /// Spawn another simulated foreground thread from this one (it becomes schedulable at once).
    pub fn spawn<F: FnOnce(&Ctx) + Send + 'static>(&self, name: &str, f: F) -> usize {
        self.sim.spawn(name, false, f)
    }
    /// Block until every other foreground thread has finished.
    pub fn wait_quiescent(&self) {
        let mut st = self.sim.st.lock().unwrap();
        if st.shutdown {
            drop(st);
            std::panic::resume_unwind(Box::new(Shutdown));
        }
        st.steps += 1;
        st.th[self.me].status = Status::WaitAll;
        let _st = self.sim.handoff(st, self.me);
    }
    pub fn now(&self) -> u64 {
        self.sim.st.lock().unwrap().now
    }
}

fn api_invoke(sim: &Arc<Sim>, me: usize, op: u32) -> usize {
    let mut st = sim.st.lock().unwrap();
    if st.shutdown {
        drop(st);
        std::panic::resume_unwind(Box::new(Shutdown));
    }
    st.steps += 1;
    st = sim.handoff(st, me);
    if st.th.iter().enumerate().any(|(i, t)| i != me && t.in_api) {
        st.overlaps += 1;
    }
    st.th[me].in_api = true;
    st.th[me].last_read = None;
    st.push(Ev::Api { t: me as u8, op, phase: Phase::Invoke });
    st.log.len() - 1
}

fn yield_point(sim: &Arc<Sim>, me: usize) {
    let mut st = sim.st.lock().unwrap();
    if st.shutdown {
        return;
    }
    st.steps += 1;
    let _st = sim.handoff(st, me);
}

/// Scheduling point usable from callbacks running on a simulated thread (no-op elsewhere).
pub fn yield_here() {
    let c = CUR.with(|c| c.borrow().clone());
    if let Some((sim, me)) = c {
        yield_point(&sim, me);
    }
}
/// Harness note from a callback.
pub fn note_here(code: u32, val: u64) {
    let c = CUR.with(|c| c.borrow().clone());
    if let Some((sim, me)) = c {
        let mut st = sim.st.lock().unwrap();
        st.push(Ev::Note { t: me as u8, code, val });
    }
}
pub fn advance_here(quanta: u64) {
    let c = CUR.with(|c| c.borrow().clone());
    if let Some((sim, _)) = c {
        sim.st.lock().unwrap().now += quanta * QUANTUM_NS;
    }
}

struct H {
    sim: Arc<Sim>,
    me: usize,
}
impl Hooks for H {
    fn before(&self, op: &Op) -> Directive {
        let me = self.me;
        let mut st = self.sim.st.lock().unwrap();
        if st.shutdown {
            return Directive::Proceed;
        }
        let loc = st.loc(op.addr);
        if matches!(op.kind, OpKind::MutexUnlock | OpKind::RwReadUnlock | OpKind::RwWriteUnlock) {
            return Directive::Proceed; // unlocks are not scheduling points
        }
        if st.th[me].status == Status::Exiting {
            // TLS destructors after the body: serialised by the controller's join, not scheduled
            return Directive::Proceed;
        }
        st.steps += 1;
        st.decide_tick();
        st.th[me].vis_ops += 1;
        if let Some(s) = &st.env.stall {
            if st.replay.is_none() && s.thread == me && st.th[me].vis_ops == s.at + 1 && st.stall_until.is_none() {
                st.stall_until = Some(st.decisions + s.len as u64);
            }
        }
        st.th[me].pending = Some((op.kind, loc));
        if op.kind == OpKind::Load {
            if let Some((l, _, v, n)) = st.th[me].last_read {
                if l == loc && v == st.locs[loc as usize].version && n >= 3 {
                    // fourth identical read of an unchanged cell in a row: wait for the cell to change
                    st.th[me].status = Status::Spin(loc, v);
                }
            }
        }
        if let (OpKind::Cas | OpKind::CasWeak, Some((l, a, b, v))) = (op.kind, st.th[me].last_fail) {
            if l == loc && a == op.a && b == op.b && v == st.locs[loc as usize].version {
                st.th[me].status = Status::Spin(loc, v);
            }
        }
        st = self.sim.handoff(st, me);
        st.th[me].pending = None;
        match op.kind {
            OpKind::MutexLock | OpKind::RwWriteLock => st.locs[loc as usize].lock.writer = Some(me),
            OpKind::RwReadLock => st.locs[loc as usize].lock.readers.push(me),
            _ => {}
        }
        if op.kind == OpKind::CasWeak && (st.env.spurious_pct > 0 || st.replay.is_some()) && st.decide_spurious() {
            st.th[me].spur = true;
            st.spurious_fired += 1;
            return Directive::SpuriousFail;
        }
        Directive::Proceed
    }

    fn after(&self, op: &Op, result: u64, ok: bool) {
        let me = self.me;
        let mut st = self.sim.st.lock().unwrap();
        if st.shutdown {
            return;
        }
        let loc = st.loc(op.addr);
        let li = loc as usize;
        let spurious = std::mem::replace(&mut st.th[me].spur, false);
        st.push(Ev::Op { t: me as u8, kind: op.kind, loc, ord: op.order, a: op.a, b: op.b, res: result, ok, spurious, line: op.line });
        let is_cas = matches!(op.kind, OpKind::Cas | OpKind::CasWeak);
        let rmw_ok = matches!(op.kind, OpKind::Swap | OpKind::FetchAdd | OpKind::FetchSub | OpKind::Rmw) || (is_cas && ok);
        let acq = |o: O| matches!(o, O::Acquire | O::AcqRel | O::SeqCst);
        let rls = |o: O| matches!(o, O::Release | O::AcqRel | O::SeqCst);
        if me >= st.th[me].vc.len() {
            st.th[me].vc.resize(me + 1, 0);
        }
        st.th[me].vc[me] += 1;
        // ---------- lock bookkeeping + clocks
        match op.kind {
            OpKind::MutexLock | OpKind::RwWriteLock | OpKind::RwReadLock => {
                let l = st.locs[li].lockvc.clone();
                vjoin(&mut st.th[me].vc, &l);
            }
            OpKind::MutexTryLock | OpKind::RwTryWrite => {
                // never blocks; when it took the lock it counts as an acquisition from here on
                if ok {
                    st.locs[li].lock.writer = Some(me);
                    let l = st.locs[li].lockvc.clone();
                    vjoin(&mut st.th[me].vc, &l);
                }
            }
            OpKind::RwTryRead => {
                if ok {
                    st.locs[li].lock.readers.push(me);
                    let l = st.locs[li].lockvc.clone();
                    vjoin(&mut st.th[me].vc, &l);
                }
            }
            OpKind::MutexUnlock | OpKind::RwWriteUnlock => {
                let c = st.th[me].vc.clone();
                st.locs[li].lockvc = c;
                st.locs[li].lock.writer = None;
            }
            OpKind::RwReadUnlock => {
                let c = st.th[me].vc.clone();
                vjoin(&mut st.locs[li].lockvc, &c);
                let rd = &mut st.locs[li].lock.readers;
                if let Some(p) = rd.iter().position(|&r| r == me) {
                    rd.remove(p);
                }
            }
            OpKind::Load => {
                if acq(op.order) {
                    let r = st.locs[li].rel.clone();
                    vjoin(&mut st.th[me].vc, &r);
                }
            }
            OpKind::Store => {
                let c = if rls(op.order) { st.th[me].vc.clone() } else { vec![] };
                st.locs[li].rel = c;
            }
            _ if rmw_ok => {
                if acq(op.order) {
                    let r = st.locs[li].rel.clone();
                    vjoin(&mut st.th[me].vc, &r);
                }
                if rls(op.order) {
                    let c = st.th[me].vc.clone();
                    vjoin(&mut st.locs[li].rel, &c);
                }
            }
            _ => {
                if acq(op.fail_order) {
                    let r = st.locs[li].rel.clone();
                    vjoin(&mut st.th[me].vc, &r);
                }
            }
        }
        // ---------- spin-wait bookkeeping for plain loads
        if op.kind == OpKind::Load {
            let v = st.locs[li].version;
            st.th[me].last_read = match st.th[me].last_read {
                Some((l, r, ov, n)) if l == loc && r == result && ov == v => Some((l, r, ov, n + 1)),
                _ => Some((loc, result, v, 1)),
            };
        } else if !matches!(op.kind, OpKind::MutexUnlock | OpKind::RwReadUnlock | OpKind::RwWriteUnlock) {
            st.th[me].last_read = None;
        }
        // ---------- conflict signature
        let modifying = rmw_ok || op.kind == OpKind::Store;
        let lock_excl = matches!(op.kind, OpKind::MutexLock | OpKind::RwWriteLock) || (matches!(op.kind, OpKind::MutexTryLock | OpKind::RwTryWrite) && ok);
        if modifying || lock_excl {
            let class = if matches!(op.kind, OpKind::Swap | OpKind::Store) { 2 } else { 1 };
            let l = &mut st.locs[li];
            l.chain = mix2(l.chain, (me as u64) << 8 | class);
        } else if matches!(op.kind, OpKind::Load | OpKind::RwReadLock) || (is_cas && !ok) {
            let l = &mut st.locs[li];
            l.racc = l.racc.wrapping_add(mix2(l.chain, me as u64 + 77));
        }
        if modifying {
            st.locs[li].version += 1;
            if st.env.hb {
                let myc = st.th[me].vc.clone();
                if matches!(op.kind, OpKind::Swap | OpKind::Store) {
                    let lm = st.locs[li].lastmod.clone();
                    for u in 0..lm.len() {
                        if u != me && lm[u] > vget(&myc, u) {
                            st.races.push(format!("overwrite ({:?} at line {}) not ordered after an update by thread {}", op.kind, op.line, u));
                        }
                    }
                    st.locs[li].lastswap = Some((me, myc[me]));
                } else if let Some((u, e)) = st.locs[li].lastswap {
                    if u != me && e > vget(&myc, u) {
                        st.races.push(format!("update ({:?} at line {}) not ordered after an overwrite by thread {}", op.kind, op.line, u));
                    }
                }
                let e = &mut st.locs[li].lastmod;
                if e.len() <= me {
                    e.resize(me + 1, 0);
                }
                e[me] = myc[me];
            }
            st.th[me].last_fail = None;
        } else if is_cas && !ok && !spurious {
            st.real_cas_conflicts += 1;
            let v = st.locs[li].version;
            st.th[me].last_fail = Some((loc, op.a, op.b, v));
        } else if is_cas {
            // injected failure: must not arm the spin rule; keep an earlier genuine failure
        } else {
            st.th[me].last_fail = None;
        }
        let acquired = matches!(op.kind, OpKind::MutexLock | OpKind::RwWriteLock | OpKind::RwReadLock) || (matches!(op.kind, OpKind::MutexTryLock | OpKind::RwTryRead | OpKind::RwTryWrite) && ok);
        if acquired && st.env.yield_in_locks && st.th[me].status != Status::Exiting {
            st.steps += 1;
            st.th[me].pending = None;
            let _st = self.sim.handoff(st, me);
        }
    }

    fn now_nanos(&self) -> u64 {
        let mut st = self.sim.st.lock().unwrap();
        let now = st.now;
        let t = self.me as u8;
        if !st.shutdown {
            st.push(Ev::Clock { t, now });
        }
        now
    }

    fn sleep_nanos(&self, nanos: u64) {
        let me = self.me;
        let mut st = self.sim.st.lock().unwrap();
        if st.shutdown {
            drop(st);
            std::panic::resume_unwind(Box::new(Shutdown));
        }
        st.steps += 1;
        let until = st.now + nanos;
        st.th[me].status = Status::Sleeping(until);
        let _st = self.sim.handoff(st, me);
    }

    fn spawn(&self, name: &str, f: Box<dyn FnOnce() + Send + 'static>) {
        self.sim.spawn(name, true, move |_ctx| f());
    }
}
