//! dsim-static: C19 — static-metric accessors address exactly the declared label values.
//! A generated corpus of make_static_metric! / make_auto_flush_static_metric! declarations
//! (src/generated.rs, written by tools/gen_static.py) is driven by the dsim simulator.
mod generated;
mod glue;

use dsim::common::*;
use dsim::driver::{Info, RunOut, Scenario, Tier, Violation};
use dsim::engine::{Env, Mode, Outcome, BASE_NS};
use dsim::rng::Rng;
use glue::{Decl, Via};
use serde::{Deserialize, Serialize};
use serde_json::Value;
use std::collections::BTreeMap;
use std::sync::{Arc, Mutex};

dsim::define_getrandom!();

#[derive(Deserialize, Clone, Debug)]
struct DeclInfo {
    idx: usize,
    form: String,
    kind: String,
    labels: Vec<String>,
    vec_labels: Vec<String>,
    values: Vec<Vec<String>>,
    enum_levels: Vec<bool>,
    leaves: usize,
}
fn table() -> Vec<DeclInfo> {
    serde_json::from_str(generated::TABLE).expect("table")
}
impl DeclInfo {
    /// label pairs (name -> value) of leaf `n` (row-major over declared values)
    fn leaf_labels(&self, mut n: usize) -> BTreeMap<String, String> {
        let mut idx = vec![0; self.values.len()];
        for k in (0..self.values.len()).rev() {
            idx[k] = n % self.values[k].len();
            n /= self.values[k].len();
        }
        self.labels.iter().cloned().zip(idx.iter().enumerate().map(|(k, v)| self.values[k][*v].clone())).collect()
    }
}

#[derive(Serialize, Deserialize, Clone, Debug, PartialEq)]
enum SOp {
    Update { leaf: usize, via: Via, bit: u8 },
    Flush,
    /// sleep 2.5 simulated seconds (past the 1 s flush interval; the updater thread ticks meanwhile)
    SleepPast,
    /// read the backing vector (single-threaded plans only)
    Read,
    Undeclared,
    /// start a timer on a histogram leaf and discard it: nothing may reach the child, now or at the next flush
    TimerDiscard { leaf: usize },
}
#[derive(Serialize, Deserialize, Clone, Debug)]
struct StaticPlan {
    env: Env,
    decl: usize,
    threads: Vec<Vec<SOp>>,
}

fn gen_plan(seed: u64) -> StaticPlan {
    let mut r = Rng::new(seed, 1);
    let t = table();
    let d = r.below(t.len() as u64) as usize;
    let info = &t[d];
    let auto = info.form == "auto";
    let nthreads = if r.chance(55) { 1 } else { 2 + r.below(2) as usize };
    let mut bit = 8u8;
    let mut threads = vec![];
    for _ in 0..nthreads {
        let n = 2 + r.below(7) as usize;
        let mut ops = vec![];
        for _ in 0..n {
            let op = match r.below(100) {
                0..=64 => {
                    bit += 1;
                    SOp::Update { leaf: r.below(info.leaves as u64) as usize, via: *r.pick(&[Via::Field, Via::Get, Via::TryGet]), bit: bit - 1 }
                }
                65..=76 => SOp::Flush,
                77..=83 if auto => SOp::SleepPast,
                84..=91 if nthreads == 1 => SOp::Read,
                92..=99 if !auto && info.kind.ends_with("Histogram") => {
                    // preferably on a leaf that (in the local form) has unflushed observations
                    let last = ops.iter().rev().find_map(|o| if let SOp::Update { leaf, .. } = o { Some(*leaf) } else { None });
                    SOp::TimerDiscard { leaf: if r.chance(60) { last.unwrap_or(0) } else { r.below(info.leaves as u64) as usize } }
                }
                _ => SOp::Undeclared,
            };
            ops.push(op);
        }
        // every thread ends with something that is guaranteed to deliver its pending updates
        if auto && r.chance(30) {
            // the thread-local instance must exist before the sleep for the interval to count
            bit += 2;
            ops.push(SOp::Update { leaf: r.below(info.leaves as u64) as usize, via: Via::Get, bit: bit - 2 });
            ops.push(SOp::SleepPast);
            ops.push(SOp::Update { leaf: r.below(info.leaves as u64) as usize, via: Via::Field, bit: bit - 1 });
        } else {
            ops.push(SOp::Flush);
        }
        threads.push(ops);
    }
    let mut env = Env::swarm(&mut r, nthreads, 400, false);
    env.join_on_exit = true;
    env.max_steps = 200_000;
    StaticPlan { env, decl: d, threads }
}

#[derive(Clone, Debug)]
enum SRes {
    Updated(bool),
    None,
    Read(Vec<(Vec<(String, String)>, f64)>),
    Undeclared(bool),
}

fn execute(plan: &StaticPlan, mode: Mode) -> RunOut {
    let infos = table();
    let info = infos[plan.decl].clone();
    let decls = generated::decls();
    let decl: &'static dyn Decl = decls[plan.decl];
    // run isolation: process-global state back to its initial value
    prometheus::timer::verif_reset();
    decl.reset();
    let sim = new_sim(&plan.env, mode);
    let results: Results<SRes> = Arc::new(Mutex::new(vec![]));
    let auto = info.form == "auto";
    for (t, ops) in plan.threads.iter().enumerate() {
        let ops = ops.clone();
        let results = results.clone();
        sim.spawn(&format!("sim{}", t), false, move |ctx| {
            if auto && t == 0 {
                // the generated statics were created at process start; every run needs its own updater
                prometheus::timer::ensure_updater();
            }
            let inst = decl.instance();
            for (i, op) in ops.iter().enumerate() {
                let id = op_id(t, i);
                ctx.invoke(id);
                let r = dsim::seams::catch(std::panic::AssertUnwindSafe(|| match op {
                    SOp::Update { leaf, via, bit } => SRes::Updated(inst.update(*leaf, *via, 1u64 << bit)),
                    SOp::Flush => {
                        inst.flush();
                        SRes::None
                    }
                    SOp::SleepPast => {
                        prometheus::verif::thread::sleep(std::time::Duration::from_millis(2500));
                        SRes::None
                    }
                    SOp::Read => SRes::Read(decl.read()),
                    SOp::Undeclared => SRes::Undeclared(inst.undeclared_is_none()),
                    SOp::TimerDiscard { leaf } => {
                        inst.timer_discard(*leaf);
                        SRes::None
                    }
                }));
                ctx.ret(id);
                results.lock().unwrap().push((id, r));
            }
            drop(inst);
            // thread-local instances of auto-flush structs are destroyed when this OS thread exits;
            // the controller joins it before anything else is scheduled (join_on_exit)
        });
    }
    let fin: Arc<Mutex<Option<Vec<(Vec<(String, String)>, f64)>>>> = Arc::new(Mutex::new(None));
    {
        let fin = fin.clone();
        spawn_final(&sim, move |_| {
            *fin.lock().unwrap() = Some(decl.read());
        });
    }
    let res = sim.run();
    let mut out = base_out(&plan.env, &res);
    out.nontrivial = plan.threads.iter().flatten().filter(|o| matches!(o, SOp::Update { .. })).count() >= 2;
    let dname = format!("declaration d{} ({} {}, labels {:?}, backing order {:?})", info.idx, info.form, info.kind, info.labels, info.vec_labels);
    for (t, p) in &res.panics {
        out.violations.push(Violation::new("C19/panic", "C19/panic", format!("{}: thread {} panicked: {}", dname, t, p)));
    }
    if res.outcome == Outcome::Stuck {
        out.violations.push(Violation::new("C19/stuck", "C19/stuck", format!("{}: no thread can make progress", dname)));
        return out;
    }
    if !is_finished(&res) {
        return out;
    }
    let results = results.lock().unwrap();
    let res_of = |id: u32| results.iter().find(|(i, _)| *i == id).map(|(_, r)| r.clone());
    let single = plan.threads.len() == 1;
    let is_plain = info.form == "plain";
    // model: per leaf, bits delivered to the backing vector / pending per thread
    let mut delivered: Vec<u64> = vec![0; info.leaves];
    let mut all: Vec<u64> = vec![0; info.leaves];
    let mut n_interval = 0u64;
    let compare = |got: &Vec<(Vec<(String, String)>, f64)>, lower: &Vec<u64>, upper: &Vec<u64>, when: &str, out: &mut RunOut| {
        // every declared combination exactly once, nothing else
        let mut seen = vec![0u32; info.leaves];
        for (labels, v) in got {
            let m: BTreeMap<String, String> = labels.iter().cloned().collect();
            match (0..info.leaves).find(|n| info.leaf_labels(*n) == m) {
                Some(n) => {
                    seen[n] += 1;
                    if *v == f64::NEG_INFINITY {
                        out.violations.push(Violation::new("C19/child", "C19/child:buckets", format!("{} {}: the histogram child {:?} reports a count or bucket counts that do not describe the observations its sum is made of", dname, when, m)));
                        continue;
                    }
                    let u = f2u(*v).unwrap_or(u64::MAX);
                    if u & !upper[n] != 0 || lower[n] & !u != 0 {
                        let wrong = u & !upper[n];
                        // which leaf do the foreign bits belong to?
                        let from = (0..info.leaves).find(|k| *k != n && upper[*k] & wrong != 0).map(|k| format!("; it holds updates made through the path of {:?}", info.leaf_labels(k))).unwrap_or_default();
                        out.violations.push(Violation::new("C19/child", if wrong != 0 { "C19/child:foreign-update" } else { "C19/child:missing-update" }, format!("{} {}: child {:?} holds {} but the updates made through its path are {:#x} (delivered for sure: {:#x}){}", dname, when, m, v, upper[n], lower[n], from)));
                    }
                }
                None => out.violations.push(Violation::new("C19/children", "C19/children:undeclared", format!("{} {}: backing vector has a child {:?} that no declared path denotes", dname, when, m))),
            }
        }
        for (n, c) in seen.iter().enumerate() {
            // a child that nothing was delivered to may not exist yet (auto-flush structs create
            // their children at the first access of a thread)
            if *c > 1 || (*c == 0 && lower[n] != 0) {
                out.violations.push(Violation::new("C19/children", "C19/children:missing", format!("{} {}: the child for declared values {:?} appears {} times in the backing vector", dname, when, info.leaf_labels(n), c)));
            }
        }
    };
    for (t, ops) in plan.threads.iter().enumerate() {
        let mut pending: Vec<u64> = vec![0; info.leaves];
        let mut slept = false;
        // the thread-local instance of an auto-flush struct is created at its first access and
        // remembers that instant as its last flush
        let mut inited = false;
        for (i, op) in ops.iter().enumerate() {
            let id = op_id(t, i);
            let r = match res_of(id) {
                Some(Ok(r)) => r,
                Some(Err(p)) => {
                    out.violations.push(Violation::new("C19/panic", "C19/panic", format!("{}: op {:?} panicked: {}", dname, op, p)));
                    continue;
                }
                None => continue,
            };
            match (op, r) {
                (SOp::Update { leaf, bit, via }, SRes::Updated(found)) => {
                    if !found {
                        out.violations.push(Violation::new("C19/try_get", "C19/try_get:declared-none", format!("{}: {:?} access to declared values {:?} found nothing", dname, via, info.leaf_labels(*leaf))));
                        continue;
                    }
                    all[*leaf] |= 1u64 << bit;
                    let was_inited = inited;
                    inited = true;
                    if !was_inited {
                        slept = false;
                    }
                    if is_plain {
                        delivered[*leaf] |= 1u64 << bit;
                    } else {
                        pending[*leaf] |= 1u64 << bit;
                        if auto && slept {
                            // an update after the interval elapsed triggers a flush of everything pending
                            n_interval += 1;
                            for k in 0..info.leaves {
                                delivered[k] |= pending[k];
                                pending[k] = 0;
                            }
                            slept = false;
                        }
                    }
                }
                (SOp::Flush, _) => {
                    inited = true;
                    for k in 0..info.leaves {
                        delivered[k] |= pending[k];
                        pending[k] = 0;
                    }
                }
                (SOp::SleepPast, _) => slept = inited,
                (SOp::Read, SRes::Read(got)) => {
                    if single {
                        // local forms: unflushed updates are not in the backing vector; auto-flush forms
                        // may also have flushed by interval, which the model applies at the next update
                        compare(&got, &delivered, &delivered, &format!("at read op {}", id), &mut out);
                    }
                }
                (SOp::Undeclared, SRes::Undeclared(ok)) => {
                    if !ok {
                        out.violations.push(Violation::new("C19/try_get", "C19/try_get:undeclared-some", format!("{}: try_get of an undeclared value returned a child", dname)));
                    }
                }
                _ => {}
            }
        }
        // thread exit: local histograms flush in their destructor, local counters do not
        if info.kind.contains("Histogram") && !is_plain {
            for k in 0..info.leaves {
                delivered[k] |= pending[k];
            }
        }
    }
    if let Some(got) = fin.lock().unwrap().clone() {
        compare(&got, &delivered, &all, "after all threads exited", &mut out);
        // every plan ends each thread with a delivering step, so delivered == all is expected
        if delivered != all {
            out.violations.push(Violation::new("C19/harness", "C19/harness", "plan does not deliver everything (generator bug)".to_string()));
        }
    }
    let mut fp = dsim::rng::Fp::default();
    fp.str(&serde_json::to_string(&(&plan.decl, &plan.threads)).unwrap());
    out.signature = out.signature.wrapping_add(fp.0);
    out.probes.push(("autoflush_by_interval", n_interval));
    out.probes.push(("auto_flush_declarations", auto as u64));
    out.probes.push(("local_declarations", (info.form == "local") as u64));
    out.probes.push(("multi_threaded_runs", (!single) as u64));
    out.probes.push(("simulated_seconds_slept", res.sim_ns / 1_000_000_000));
    out
}

struct C19;
impl Scenario for C19 {
    fn id(&self) -> &'static str {
        "C19"
    }
    fn name(&self) -> &'static str {
        "static-metric"
    }
    fn runs(&self, tier: Tier) -> u64 {
        match tier {
            Tier::Quick => 60_000,
            Tier::Thorough => 1_500_000,
        }
    }
    fn gen(&self, seed: u64, _tier: Tier) -> Value {
        serde_json::to_value(gen_plan(seed)).unwrap()
    }
    fn run(&self, plan: &Value, mode: Mode) -> RunOut {
        let plan: StaticPlan = serde_json::from_value(plan.clone()).expect("C19 plan");
        let hs = plan.env.hash_seed;
        isolated(hs, move || execute(&plan, mode))
    }
    fn shrink(&self, plan: &Value) -> Vec<Value> {
        let p: StaticPlan = serde_json::from_value(plan.clone()).unwrap();
        let mut c = vec![];
        for t in 0..p.threads.len() {
            if p.threads.len() > 1 {
                let mut n = p.clone();
                n.threads.remove(t);
                c.push(n);
            }
            // never remove a thread's final delivering step(s)
            let keep_tail = if p.threads[t].last() == Some(&SOp::Flush) { 1 } else { 3 };
            for i in 0..p.threads[t].len().saturating_sub(keep_tail) {
                let mut n = p.clone();
                n.threads[t].remove(i);
                c.push(n);
            }
        }
        c.into_iter().map(|p| serde_json::to_value(p).unwrap()).collect()
    }
    fn info(&self) -> Info {
        Info {
            rule: "one run = one declaration of a generated corpus (51 make_static_metric! / make_auto_flush_static_metric! declarations, 44 random and 7 hand-picked adversarial ones: 1-4 labels x 1-4 values, inline / label_enum / renamed values, Counter, IntCounter, Gauge, IntGauge, Histogram, their Local forms and auto-flush forms, backing vector with permuted label order; compiled from /repo's static-metric crate) driven by 1-3 simulated threads: updates of weight 2^k through field paths, get(enum) and try_get(str) chains, explicit flushes, sleeping past the flush interval on the simulated clock while the simulated updater thread ticks, probes of undeclared values; threads exit under the controller's join so TLS destructors are serialised; at quiescence (and at reads in single-threaded runs) every child of the backing vector must hold exactly the updates made through the paths whose declared values are its label values, and no other child may exist; non-trivial = >=2 updates; distinct = distinct (declaration, operation lists, interleaving)",
            assumptions: vec!["the corpus is fixed (tools/gen_static.py, seed in the file); value identifiers avoid the names the expansion uses for its own locals", "sequentially consistent interleavings at shim-visible operations", "auto-flush by interval is modelled as: the first update after sleeping 2.5 simulated seconds flushes everything pending on that thread"],
            real: vec!["prometheus-static-metric proc macros (expansions compiled into this binary)", "prometheus::local::{AFLocalCounter, AFLocalHistogram}, timer::{now_millis, recent_millis, ensure_updater}, vectors and local metrics"],
            stubbed: vec!["the clock and sleep (discrete-event)", "the time-updater thread's scheduling (it runs as a simulated daemon thread)", "thread scheduling", "thread exit ordering (controller joins exiting threads)"],
            expected_probes: vec!["autoflush_by_interval", "auto_flush_declarations", "local_declarations", "multi_threaded_runs"],
        }
    }
}

/// Hooks used once at process start: a frozen clock at BASE, spawned closures are discarded.
struct Boot;
impl prometheus::verif::Hooks for Boot {
    fn before(&self, _: &prometheus::verif::Op) -> prometheus::verif::Directive {
        prometheus::verif::Directive::Proceed
    }
    fn after(&self, _: &prometheus::verif::Op, _: u64, _: bool) {}
    fn now_nanos(&self) -> u64 {
        BASE_NS
    }
    fn sleep_nanos(&self, _: u64) {}
    fn spawn(&self, _: &str, _: Box<dyn FnOnce() + Send + 'static>) {}
}

fn scenario(id: &str) -> Option<&'static dyn Scenario> {
    match id {
        "C19" => Some(&C19),
        _ => None,
    }
}

fn main() {
    // process-global state: force every lazy static of the corpus (this is where ensure_updater()
    // is called by the generated constructors) and the timer's ANCHOR under the boot hooks, then
    // put the timer back to its initial state. Every run starts from exactly this state.
    prometheus::verif::install(Some(Arc::new(Boot)));
    for d in generated::decls() {
        d.touch();
        // populate every backing vector once (and drop the children again) so that the capacity of
        // its child map, and with it its iteration order, is the same in every later run
        let i = d.instance();
        i.update(0, Via::Field, 0);
        i.flush();
        drop(i);
        d.reset();
    }
    let _ = prometheus::timer::now_millis();
    prometheus::verif::install(None);
    prometheus::timer::verif_reset();
    dsim::cli::run(scenario, &["C19"])
}
