//! Interface between the generated declarations and the harness.
use dsim::compat;

#[derive(Clone, Copy, Debug, PartialEq, serde::Serialize, serde::Deserialize)]
pub enum Via {
    /// generated field path: s.a.b.c
    Field,
    /// get(Enum::v) at every level declared through a label_enum, field access elsewhere
    Get,
    /// try_get("value") at every level (plain and local forms; auto-flush structs have none)
    TryGet,
}

pub trait Inst {
    /// apply an update of weight `w` to leaf number `leaf` (row-major over the declared values)
    fn update(&self, leaf: usize, via: Via, w: u64) -> bool;
    fn flush(&self);
    /// histogram leaves of the plain and local forms: start a timer on the leaf and discard it
    /// (records nothing); false if the form has no timers
    fn timer_discard(&self, leaf: usize) -> bool;
    fn undeclared_is_none(&self) -> bool;
}
pub trait Decl: Sync {
    fn reset(&self);
    fn touch(&self);
    /// (label pairs, value) of every child of the backing vector
    fn read(&self) -> Vec<(Vec<(String, String)>, f64)>;
    fn instance(&self) -> Box<dyn Inst>;
}

pub fn read_vec(mfs: &[prometheus::proto::MetricFamily]) -> Vec<(Vec<(String, String)>, f64)> {
    let f = compat::family_of(&mfs[0]);
    f.metrics
        .iter()
        .map(|m| {
            let v = match &m.hist {
                // histogram children: the sum (every update observes a distinct power of two), or
                // -infinity when count or bucket counts do not describe exactly those observations
                Some(h) => {
                    let ok = dsim::common::f2u(h.sum)
                        .map(|set| h.count == set.count_ones() as u64 && h.buckets.iter().all(|(ub, cc)| *cc == (0..64).filter(|b| set & (1u64 << b) != 0 && ((1u64 << b) as f64) <= *ub).count() as u64))
                        .unwrap_or(false);
                    if ok {
                        h.sum
                    } else {
                        f64::NEG_INFINITY
                    }
                }
                None => m.counter.or(m.gauge).unwrap_or(f64::NAN),
            };
            (m.labels.clone(), v)
        })
        .collect()
}
