#!/usr/bin/env python3
"""mkbenign.py <name> <<< python code operating on dict `files` (path -> text) — writes /verif/benign/<name>.diff"""
import sys, subprocess, re
name = sys.argv[1]
code = sys.stdin.read()
class F(dict):
    def __missing__(self, k):
        v = open('/repo/' + k).read(); self[k] = v; return v
files = F()
exec(code)
for k, v in files.items():
    open('/repo/' + k, 'w').write(v)
d = subprocess.run(["git", "-C", "/repo", "diff"], capture_output=True, text=True).stdout
open(f"/verif/benign/{name}.diff", "w").write(d)
subprocess.run(["git", "-C", "/repo", "checkout", "--", "."])
print("wrote", name, len(d.splitlines()), "lines")
