#!/usr/bin/env python3
"""Generates /verif/dsim-static/src/generated.rs: a corpus of make_static_metric! /
make_auto_flush_static_metric! declarations drawn from the grammar of property C19, each with a
backing vector whose label order is a random permutation, plus the glue the harness needs
(field-path / get(enum) / try_get(str) accessors per leaf, flush, undeclared probes, a table).
Deterministic: the corpus depends only on SEED below."""
import random, json, itertools
SEED = 20260927
N_PLAIN, N_LOCAL, N_AUTO = 20, 12, 12
rnd = random.Random(SEED)
IDENTS = ["foo","bar","baz","qux","post","put","delete","http1","http2","alpha","beta","gamma","delta","one","two","ok","err_v","read_op","write_op","k9"]
STRS = ["HTTP/1","a b","","é","x,y","post_name","q\"uote","back\\slash","UPPER","0"]
LABELS = ["method","product","version","zone","kind","la","lb"]

def rs(s):
    return '"' + s.replace('\\','\\\\').replace('"','\\"') + '"'

def gen_values(n):
    ids = rnd.sample(IDENTS, n)
    vals = []
    used = set()
    for i in ids:
        if rnd.random() < 0.35:
            s = rnd.choice(STRS)
            if s in used or s in ids:
                s = i
        else:
            s = i
        if s in used:
            s = i
        used.add(s)
        vals.append((i, s))
    return vals

def gen_decl(idx, form):
    if form == "plain":
        kind = rnd.choice(["Counter","IntCounter","Gauge","IntGauge","Histogram"])
    elif form == "local":
        kind = rnd.choice(["LocalCounter","LocalIntCounter","LocalHistogram"])
    else:
        kind = rnd.choice(["LocalCounter","LocalIntCounter","LocalHistogram"])
    while True:
        nl = rnd.randint(1,4)
        counts = [rnd.randint(1,4) for _ in range(nl)]
        prod = 1
        for c in counts: prod *= c
        if prod <= 16: break
    labels = rnd.sample(LABELS, nl)
    levels = []
    for li,(lab,c) in enumerate(zip(labels,counts)):
        vals = gen_values(c)
        is_enum = rnd.random() < 0.4
        levels.append({"label":lab,"values":vals,"enum": f"E{idx}L{li}" if is_enum else None})
    perm = labels[:]
    rnd.shuffle(perm)
    return {"idx":idx,"form":form,"kind":kind,"levels":levels,"vec_labels":perm}

def base_kind(k): return k[5:] if k.startswith("Local") else k
def vec_type(k): return base_kind(k)+"Vec"

def upd(expr, kind, auto):
    b = base_kind(kind)
    if b == "Counter": return f"{expr}.inc_by(w as f64)"
    if b == "IntCounter": return f"{expr}.inc_by(w)"
    if b == "Gauge": return f"{expr}.add(w as f64)"
    if b == "IntGauge": return f"{expr}.add(w as i64)"
    return f"{expr}.observe(w as f64)"

def emit(d):
    i = d["idx"]; form = d["form"]; kind = d["kind"]; lv = d["levels"]
    auto = form == "auto"
    mac = "make_auto_flush_static_metric" if auto else "make_static_metric"
    o = []
    o.append(f"pub mod d{i} {{\n    #![allow(non_camel_case_types, unused_imports, dead_code, clippy::all)]\n    use super::*;\n")
    o.append(f"    {mac}! {{\n")
    for l in lv:
        if l["enum"]:
            o.append(f"        pub label_enum {l['enum']} {{\n")
            for (idn, s) in l["values"]:
                o.append(f"            {idn}: {rs(s)},\n" if s != idn else f"            {idn},\n")
            o.append("        }\n")
    o.append(f"        pub struct S: {kind} {{\n")
    for l in lv:
        if l["enum"]:
            o.append(f"            {rs(l['label'])} => {l['enum']},\n")
        else:
            o.append(f"            {rs(l['label'])} => {{\n")
            for (idn, s) in l["values"]:
                o.append(f"                {idn}: {rs(s)},\n" if s != idn else f"                {idn},\n")
            o.append("            },\n")
    o.append("        }\n    }\n")
    vt = vec_type(kind)
    names = ", ".join(rs(x) for x in d["vec_labels"])
    if base_kind(kind) == "Histogram":
        ctor = f'HistogramVec::new(HistogramOpts::new("c19_d{i}", "help").buckets(vec![4096.0, 1048576.0, 1073741824.0, 1e300]), &[{names}]).unwrap()'
    else:
        ctor = f'{vt}::new(Opts::new("c19_d{i}", "help"), &[{names}]).unwrap()'
    o.append(f"    lazy_static::lazy_static! {{\n        pub static ref VEC: {vt} = {ctor};\n")
    if auto:
        o.append("        pub static ref TLS: S = auto_flush_from!(VEC, S, std::time::Duration::from_millis(1000));\n")
    o.append("    }\n")
    leaves = list(itertools.product(*[range(len(l["values"])) for l in lv]))
    root = "TLS" if auto else "s.0"
    def path_field(leaf):
        return root + "".join("." + lv[k]["values"][v][0] for k,v in enumerate(leaf))
    def path_get(leaf):
        e = root
        for k,v in enumerate(leaf):
            if lv[k]["enum"]:
                e += f".get({lv[k]['enum']}::{lv[k]['values'][v][0]})"
            else:
                e += "." + lv[k]["values"][v][0]
        return e
    def path_try(leaf):
        e = f"Some(&{root})"
        for k,v in enumerate(leaf):
            e += f".and_then(|n| n.try_get({rs(lv[k]['values'][v][1])}))"
        return e
    o.append("    pub struct I(pub Option<S>);\n" if auto else "    pub struct I(pub S);\n")
    o.append("    impl Inst for I {\n        fn update(&self, leaf: usize, via: Via, w: u64) -> bool {\n            let s = self;\n            let _ = s;\n            match (via, leaf) {\n")
    for n,leaf in enumerate(leaves):
        o.append(f"                (Via::Field, {n}) => {{ {upd(path_field(leaf), kind, auto)}; true }}\n")
        o.append(f"                (Via::Get, {n}) => {{ {upd(path_get(leaf), kind, auto)}; true }}\n")
        if not auto:
            o.append(f"                (Via::TryGet, {n}) => match {path_try(leaf)} {{ Some(c) => {{ {upd('c', kind, auto)}; true }} None => false }},\n")
        else:
            o.append(f"                (Via::TryGet, {n}) => {{ {upd(path_field(leaf), kind, auto)}; true }}\n")
    o.append("                _ => false,\n            }\n        }\n")
    if base_kind(kind) == "Histogram" and not auto:
        o.append("        fn timer_discard(&self, leaf: usize) -> bool {\n            let s = self;\n            let _ = s;\n            match leaf {\n")
        for n,leaf in enumerate(leaves):
            o.append(f"                {n} => {{ {path_field(leaf)}.start_timer().stop_and_discard(); true }}\n")
        o.append("                _ => false,\n            }\n        }\n")
    else:
        o.append("        fn timer_discard(&self, _leaf: usize) -> bool { false }\n")
    if form == "plain":
        o.append("        fn flush(&self) {}\n")
    elif form == "local":
        o.append("        fn flush(&self) { self.0.flush(); }\n")
    else:
        o.append("        fn flush(&self) { TLS.flush(); }\n")
    # undeclared probes: at every level of the path of leaf 0, try_get of strings that are not declared there
    if not auto:
        o.append("        fn undeclared_is_none(&self) -> bool {\n            let s = self;\n            let mut ok = true;\n")
        for depth in range(len(lv)):
            prefix = f"Some(&{root})" + "".join(f".and_then(|n| n.try_get({rs(lv[k]['values'][0][1])}))" for k in range(depth))
            declared = [s for (_,s) in lv[depth]["values"]]
            cands = [c for c in ["nope", "", "foo", "HTTP/1", "é", lv[depth]["values"][0][0], lv[depth]["values"][0][1] + " ", lv[depth]["values"][0][1].upper() + "_"] if c not in declared]
            for c in cands:
                o.append(f"            ok &= {prefix}.map(|n| n.try_get({rs(c)}).is_none()).unwrap_or(false);\n")
        o.append("            ok\n        }\n")
    else:
        o.append("        fn undeclared_is_none(&self) -> bool { true }\n")
    o.append("    }\n")
    o.append("    pub struct D;\n    impl Decl for D {\n")
    o.append("        fn reset(&self) { VEC.reset(); }\n")
    o.append("        fn touch(&self) { lazy_static::initialize(&VEC);" + (" lazy_static::initialize(&TLS);" if auto else "") + " }\n")
    o.append("        fn read(&self) -> Vec<(Vec<(String, String)>, f64)> { read_vec(&VEC.collect()) }\n")
    if auto:
        o.append("        fn instance(&self) -> Box<dyn Inst> { Box::new(I(None)) }\n")
    else:
        o.append("        fn instance(&self) -> Box<dyn Inst> { Box::new(I(S::from(&VEC))) }\n")
    o.append("    }\n}\n")
    info = {"idx": i, "form": form, "kind": kind, "labels": [l["label"] for l in lv], "vec_labels": d["vec_labels"],
            "values": [[s for (_,s) in l["values"]] for l in lv], "enum_levels": [bool(l["enum"]) for l in lv], "leaves": len(leaves)}
    return "".join(o), info

decls = []
idx = 0
for form, n in (("plain",N_PLAIN),("local",N_LOCAL),("auto",N_AUTO)):
    for _ in range(n):
        decls.append(gen_decl(idx, form)); idx += 1
# hand-picked adversarial declarations (appended, so the numbering of the random ones is stable):
# empty values that can trade places between labels, and values whose concatenations coincide
def fixed(form, kind, levels, enum_at=()):
    global idx
    lv = []
    for li,(lab,vals) in enumerate(levels):
        lv.append({"label":lab,"values":vals,"enum": f"E{idx}L{li}" if li in enum_at else None})
    perm = [l[0] for l in levels]
    rnd.shuffle(perm)
    decls.append({"idx":idx,"form":form,"kind":kind,"levels":lv,"vec_labels":perm}); idx += 1
EMPTY = [("none",""),("timeout","timeout"),("ok","ok")]
SHIFT1 = [("va","ab"),("vb","a"),("vc","")]
SHIFT2 = [("p","c"),("q","bc"),("r","abc")]
fixed("plain","IntCounter",[("read",EMPTY),("write",EMPTY)])
fixed("local","LocalIntCounter",[("read",EMPTY),("write",EMPTY)],enum_at=(1,))
# (a value named `x` collides with a local variable of make_auto_flush_static_metric!'s generated
# code and does not compile - see DESIGN.md 13.7 - so no value is called x)
fixed("auto","LocalCounter",[("read",EMPTY),("write",EMPTY)])
fixed("plain","Counter",[("la",SHIFT1),("lb",SHIFT2)],enum_at=(0,))
fixed("local","LocalHistogram",[("la",SHIFT1),("lb",SHIFT2)])
fixed("plain","IntGauge",[("la",EMPTY[:2]),("lb",EMPTY[:2]),("kind",EMPTY[:2])])
fixed("auto","LocalIntCounter",[("la",SHIFT1),("lb",SHIFT2)])
out = ["// GENERATED by tools/gen_static.py (seed %d) - do not edit\n" % SEED,
       "use crate::glue::*;\nuse prometheus::core::Collector;\nuse prometheus::local::*;\nuse prometheus::*;\nuse prometheus_static_metric::{auto_flush_from, make_auto_flush_static_metric, make_static_metric};\n\n"]
infos = []
for d in decls:
    code, info = emit(d)
    out.append(code)
    infos.append(info)
out.append("pub fn decls() -> Vec<&'static dyn Decl> {\n    vec![" + ", ".join(f"&d{d['idx']}::D" for d in decls) + "]\n}\n")
out.append("pub const TABLE: &str = r####\"" + json.dumps(infos) + "\"####;\n")
open("/verif/dsim-static/src/generated.rs","w").write("".join(out))
print(len(decls), "declarations,", sum(i["leaves"] for i in infos), "leaves")
