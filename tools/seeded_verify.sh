#!/bin/bash
# seeded_verify.sh <Cxx> [check-id] [runs]: confirm an independently written breaking change
# (worktree /tmp/wt/Cxx with the change applied, deliverables in /tmp/seeded_out/Cxx) and run the check.
id=$1; chk=${2:-$1}; runs=${3:-}
R=${ROUND:-1}; if [ "$R" -ge 2 ]; then WT=/tmp/wt/R$R$id; OUT=/tmp/seeded$R/$id; DST=/verif/seeded/$id-r$R; else WT=/tmp/wt/$id; OUT=/tmp/seeded_out/$id; DST=/verif/seeded/$id; fi
[ -f $OUT/patch.diff ] || { echo "no patch for $id"; exit 1; }
mkdir -p $DST
demo=$(ls $OUT | grep -E "^demo.*\.rs$" | head -1)
echo "== $id: patch $(grep -c '^[+-][^+-]' $OUT/patch.diff) changed lines, demo $demo"
cd $WT
# put the worktree into a known state (git stash is shared between worktrees and must not be used)
git checkout -q -- . ; git apply $OUT/patch.diff || { echo "patch does not apply"; exit 1; }
TDIR=tests; PKG=""; if [ "$id" = "C19" ]; then TDIR=static-metric/tests; PKG="-p prometheus-static-metric"; fi
mkdir -p $TDIR; cp $OUT/$demo $TDIR/seeded_demo.rs
# 1. existing suite with the change (demo excluded)
suite=$(cargo test --workspace --offline 2>&1 | grep -E "^test result" | grep -v "seeded_demo" ); 
mv $TDIR/seeded_demo.rs /tmp/seeded_demo_$id.rs
suite_with=$(cargo test --workspace --offline 2>&1 | grep -E "^test result: FAILED|^error" | head -3)
mv /tmp/seeded_demo_$id.rs $TDIR/seeded_demo.rs
# 2. demo with the change
timeout 600 cargo test --offline $PKG --test seeded_demo > /tmp/demo_with_$id.log 2>&1; rc_with=$?
# 3. demo without the change
git apply -R $OUT/patch.diff
timeout 600 cargo test --offline $PKG --test seeded_demo > /tmp/demo_without_$id.log 2>&1; rc_without=$?
git apply $OUT/patch.diff
rm -f $TDIR/seeded_demo.rs
echo "suite with change: ${suite_with:-green}; demo with change rc=$rc_with; demo without change rc=$rc_without"
# 4. our check
cd /verif
cp $OUT/patch.diff $DST/patch.diff; cp $OUT/$demo $DST/; cp $OUT/notes.md $DST/agent_notes.md 2>/dev/null
if [ -n "$SKIP_CHECK" ]; then echo "suite_with=${suite_with:-green} demo_with_rc=$rc_with demo_without_rc=$rc_without" > $DST/verify.txt; exit 0; fi
res=$(./tools/runmutant.sh $DST/patch.diff $chk $runs 2>&1 | grep -E "^==|^\s+\[|HARNESS|BUILD|APPLY" | cut -c1-300 | head -6)
echo "$res"
echo "suite_with=${suite_with:-green} demo_with_rc=$rc_with demo_without_rc=$rc_without" > $DST/verify.txt
echo "$res" >> $DST/verify.txt
