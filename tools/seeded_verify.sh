#!/bin/bash
# seeded_verify.sh <Cxx> [check-id] [runs]: confirm an independently written breaking change
# (worktree /tmp/wt/Cxx with the change applied, deliverables in /tmp/seeded_out/Cxx) and run the check.
id=$1; chk=${2:-$1}; runs=${3:-}
if [ "${ROUND:-1}" = "16" ]; then WT=/tmp/wt/R16$id; OUT=/tmp/seeded16/$id; DST=/verif/seeded/$id-r16; elif [ "${ROUND:-1}" = "15" ]; then WT=/tmp/wt/R15$id; OUT=/tmp/seeded15/$id; DST=/verif/seeded/$id-r15; elif [ "${ROUND:-1}" = "14" ]; then WT=/tmp/wt/R14$id; OUT=/tmp/seeded14/$id; DST=/verif/seeded/$id-r14; elif [ "${ROUND:-1}" = "13" ]; then WT=/tmp/wt/R13$id; OUT=/tmp/seeded13/$id; DST=/verif/seeded/$id-r13; elif [ "${ROUND:-1}" = "12" ]; then WT=/tmp/wt/R12$id; OUT=/tmp/seeded12/$id; DST=/verif/seeded/$id-r12; elif [ "${ROUND:-1}" = "11" ]; then WT=/tmp/wt/R11$id; OUT=/tmp/seeded11/$id; DST=/verif/seeded/$id-r11; elif [ "${ROUND:-1}" = "10" ]; then WT=/tmp/wt/R10$id; OUT=/tmp/seeded10/$id; DST=/verif/seeded/$id-r10; elif [ "${ROUND:-1}" = "9" ]; then WT=/tmp/wt/R9$id; OUT=/tmp/seeded9/$id; DST=/verif/seeded/$id-r9; elif [ "${ROUND:-1}" = "8" ]; then WT=/tmp/wt/R8$id; OUT=/tmp/seeded8/$id; DST=/verif/seeded/$id-r8; elif [ "${ROUND:-1}" = "7" ]; then WT=/tmp/wt/R7$id; OUT=/tmp/seeded7/$id; DST=/verif/seeded/$id-r7; elif [ "${ROUND:-1}" = "6" ]; then WT=/tmp/wt/R6$id; OUT=/tmp/seeded6/$id; DST=/verif/seeded/$id-r6; elif [ "${ROUND:-1}" = "5" ]; then WT=/tmp/wt/R5$id; OUT=/tmp/seeded5/$id; DST=/verif/seeded/$id-r5; elif [ "${ROUND:-1}" = "4" ]; then WT=/tmp/wt/R4$id; OUT=/tmp/seeded4/$id; DST=/verif/seeded/$id-r4; elif [ "${ROUND:-1}" = "3" ]; then WT=/tmp/wt/R3$id; OUT=/tmp/seeded3/$id; DST=/verif/seeded/$id-r3; elif [ "${ROUND:-1}" = "2" ]; then WT=/tmp/wt/R2$id; OUT=/tmp/seeded2/$id; DST=/verif/seeded/$id-r2; else WT=/tmp/wt/$id; OUT=/tmp/seeded_out/$id; DST=/verif/seeded/$id; fi
[ -f $OUT/patch.diff ] || { echo "no patch for $id"; exit 1; }
mkdir -p $DST
demo=$(ls $OUT | grep -E "^demo.*\.rs$" | head -1)
echo "== $id: patch $(grep -c '^[+-][^+-]' $OUT/patch.diff) changed lines, demo $demo"
cd $WT
# put the worktree into a known state (git stash is shared between worktrees and must not be used)
git checkout -q -- . ; git apply $OUT/patch.diff || { echo "patch does not apply"; exit 1; }
TDIR=tests; PKG=""; if [ "$id" = "C19" ]; then TDIR=static-metric/tests; PKG="-p prometheus-static-metric"; fi
mkdir -p $TDIR; cp $OUT/$demo $TDIR/seeded_demo.rs
# 1. existing suite with the change (demo excluded)
suite=$(cargo test --workspace --offline 2>&1 | grep -E "^test result" | grep -v "seeded_demo" ); 
mv $TDIR/seeded_demo.rs /tmp/seeded_demo_$id.rs
suite_with=$(cargo test --workspace --offline 2>&1 | grep -E "^test result: FAILED|^error" | head -3)
mv /tmp/seeded_demo_$id.rs $TDIR/seeded_demo.rs
# 2. demo with the change
timeout 600 cargo test --offline $PKG --test seeded_demo > /tmp/demo_with_$id.log 2>&1; rc_with=$?
# 3. demo without the change
git apply -R $OUT/patch.diff
timeout 600 cargo test --offline $PKG --test seeded_demo > /tmp/demo_without_$id.log 2>&1; rc_without=$?
git apply $OUT/patch.diff
rm -f $TDIR/seeded_demo.rs
echo "suite with change: ${suite_with:-green}; demo with change rc=$rc_with; demo without change rc=$rc_without"
# 4. our check
cd /verif
cp $OUT/patch.diff $DST/patch.diff; cp $OUT/$demo $DST/; cp $OUT/notes.md $DST/agent_notes.md 2>/dev/null
if [ -n "$SKIP_CHECK" ]; then echo "suite_with=${suite_with:-green} demo_with_rc=$rc_with demo_without_rc=$rc_without" > $DST/verify.txt; exit 0; fi
res=$(./tools/runmutant.sh $DST/patch.diff $chk $runs 2>&1 | grep -E "^==|^\s+\[|HARNESS|BUILD|APPLY" | cut -c1-300 | head -6)
echo "$res"
echo "suite_with=${suite_with:-green} demo_with_rc=$rc_with demo_without_rc=$rc_without" > $DST/verify.txt
echo "$res" >> $DST/verify.txt
