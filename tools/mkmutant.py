#!/usr/bin/env python3
"""mkmutant.py <name> <file> <<< 'OLD\n=====\nNEW'  — writes /verif/mutants/<name>.diff (repo left unchanged)."""
import sys, subprocess
name, path = sys.argv[1], sys.argv[2]
old, new = sys.stdin.read().split("\n=====\n")
new = new.rstrip("\n")
old = old.rstrip("\n")
p = "/repo/" + path
s = open(p).read()
if s.count(old) != 1:
    print("ERROR: old text occurs", s.count(old), "times in", path); sys.exit(1)
open(p, "w").write(s.replace(old, new))
d = subprocess.run(["git", "-C", "/repo", "diff"], capture_output=True, text=True).stdout
open(f"/verif/mutants/{name}.diff", "w").write(d)
subprocess.run(["git", "-C", "/repo", "checkout", "--", "."])
print("wrote", name, len(d.splitlines()), "lines")
