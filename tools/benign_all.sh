#!/bin/bash
# benign_all.sh: every behaviour-preserving patch under /verif/benign must leave the listed checks green
cd /verif
fail=0
run() { p=$1; shift; r=$(./tools/runbenign.sh benign/$p.diff "$@" 2>&1); echo "$r"; echo "$r" | grep -qv "exit=0" && echo "$r" | grep -q "exit=[1-9]" && fail=1; }
run b_hist_seqcst C01 C02 C03 C11 C12 C18
run b_cas_strong C01 C02 C03 C11
run b_observe_sum_first C02 C03 C08 C12
run b_local_flush_sum_first C02 C03 C08 C12
run b_registry_btreemap C06 C07 C14 C16 C20
run b_vec_collect_reads_twice C10 C05 C07
run b_intcounter_cas_loop C01 C10 C02 C03 C05 C12
run b_timer_reads_clock_twice C18
run b_desc_hash_salt C15 C06 C07
run b_text_line_buffer C04 C14 C16
run b_collect_waits_by_load C02 C03 C12 C18
run b_unregister_lookup_first C06 C07 C14 C17 C20
run b_local_flush_all_buckets C02 C03 C08 C12 C18
run b_f64_fetch_update C01 C11 C02 C12
# independently written refactorings (sub-agents): every check against every patch
if [ "$1" = "--independent" ]; then
  ALL="C01 C02 C03 C04 C05 C06 C07 C08 C09 C10 C11 C12 C13 C14 C15 C16 C17 C18 C19 C20"
  for f in benign/independent/B*-[123].diff benign/independent2/B*-[123].diff; do
    r=$(./tools/runbenign.sh $f $ALL 2>&1); echo "$r" | sed "s/^/$(basename $f .diff): /"; echo "$r" | grep -q "exit=[1-9]" && fail=1
  done
fi
exit $fail
