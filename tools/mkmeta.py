#!/usr/bin/env python3
"""mkmeta.py <round> <table.json>: write seeded/<id>-r<round>/meta.json for every entry of table.json
({"Cxx": {"change":..., "needs":..., "result":..., "check": "Cxx" (optional)}}) from verify.txt
(written by tools/seeded_verify.sh) and print the DESIGN.md table rows."""
import json, os, sys

rnd = int(sys.argv[1])
table = json.load(open(sys.argv[2]))
kind = table.pop("_kind", "independently written by a sub-agent that saw only the property text")
for pid in sorted(table):
    e = table[pid]
    d = f"/verif/seeded/{pid}-r{rnd}"
    raw = [l.rstrip("\n") for l in open(f"{d}/verify.txt")] if os.path.exists(f"{d}/verify.txt") else []
    first = raw[0] if raw else ""
    kv = dict(x.split("=", 1) for x in first.split() if "=" in x)
    demo = sorted(f for f in os.listdir(d) if f.startswith("demo"))
    chk = e.get("check", pid)
    meta = {
        "property": pid,
        "round": rnd,
        "kind": kind,
        "change": e["change"],
        "needs_to_manifest": e["needs"],
        "demonstration": demo,
        "confirmed": {
            "existing_suite_with_change": kv.get("suite_with", "?"),
            "demo_with_change": "fails" if kv.get("demo_with_rc", "0") != "0" else "PASSES",
            "demo_without_change": "passes" if kv.get("demo_without_rc", "1") == "0" else "FAILS",
            "how": f"ROUND={rnd} tools/seeded_verify.sh {pid}",
        },
        "check": {
            "id": chk,
            "command": f"tools/runmutant.sh seeded/{pid}-r{rnd}/patch.diff {chk}",
            "result": e["result"],
        },
        "raw": raw,
    }
    json.dump(meta, open(f"{d}/meta.json", "w"), indent=1)
    print(f"| {pid} | {e['change']} | {e['needs']} | {e['result']} |")
