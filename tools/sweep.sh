#!/bin/bash
# sweep.sh <tier> <seed>... : run every registered check under several seeds (for vp run)
tier=$1; shift
cd "$(dirname "$0")/.."
./check --build || exit 2
for s in "$@"; do
  for id in $(./dsim/target/release/dsim list) C19; do
    VERIF_SEED=$s ./check $id $tier 2>&1 | grep -E "VIOLATION|HARNESS|KNOWN-FINDING|^C[0-9]+ |^\s+\[" | cut -c1-400 | sed "s/^/[seed $s] /"
  done
done
