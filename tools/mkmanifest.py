#!/usr/bin/env python3
"""Regenerates /verif/MANIFEST.json from the table below (single source of truth for claims)."""
import json, subprocess
props = [json.loads(l) for l in open('/verif/properties.jsonl')]
NOTE = "sampling, not proof; interleavings are sequentially consistent at shim-visible operations; trusted base: dsim engine + oracles, and the cfg(prometheus_verif) shim being a faithful pass-through to the real primitives"
claimed = {
 "C01": ("§6 C01", "seeded schedule search over the real counter code; subset / monotone / final-sum oracle on bit-decodable increments, fault-free and fault-injecting sub-batches", "deterministic simulation: seeded random/sticky/PCT schedules + injected spurious CAS failures and stalls; history oracle"),
 "C11": ("§6 C11", "seeded schedule search over the real gauge code; Wing-Gong linearizability check of every recorded history (plus quiescent value) against a sequential integer", "deterministic simulation: seeded schedules + fault injection; linearizability checker"),
 "C02": ("§6 C02, §3.5", "seeded schedule search over the real two-shard histogram (direct, through HistogramVec, through Registry::gather); every snapshot decoded to a set and checked as a consistent cut, window, per-thread prefix; vector-clock happens-before obligation on every histogram cell for the memory-model clause", "deterministic simulation: seeded schedules, stalls inside observe/collect, spurious CAS failures; set-decoding oracle + vector-clock race check"),
 "C03": ("§6 C03", "seeded search over histories with >=3 collections, local batches and getters; growing sets, batch atomicity, completeness at quiescence (read under the scheduler), progress: never stuck, and a waiting collector only waits for observations it reports or that started before it", "deterministic simulation: seeded schedules + stalls + spurious CAS; conservation and bounded-liveness (stuck detection with spin blocking) oracles"),
 "C10": ("§6 C10", "seeded schedule search over the real metric vector; child identity observed from the atomic cell each update / collected sample touched; map-operation history checked for linearizability (Wing-Gong) against a map model, values against the per-child update rule; single-threaded histories compared sequentially", "deterministic simulation: seeded schedules + stalls between read-unlock and write-lock; linearizability checker with observed child identity"),
 "C05": ("§6 C05", "generated vectors of every kind (incl. local vectors) and adversarially split label-value tuples, values and map form under seed-controlled hash seeds, invalid requests; bit-weighted updates make aliasing between any two requests visible; run on 1-2 simulated threads", "deterministic simulation used as workload + reference-model harness (group C: sequential oracle; schedule and hash seed varied but not essential)"),
 "C06": ("§6 C06", "generated register/unregister/gather histories over pools of scripted multi-descriptor collectors with frequent identity clashes and dimension disagreements, sequential and from 2-3 simulated threads; every outcome and gathered sample set compared with a reference registry (linearizability for concurrent histories); the half-failed multi-descriptor registration is the injected crash", "deterministic simulation: generated call histories with failing calls + reference model; seeded schedules and linearizability checker for the concurrent part"),
 "C07": ("§6 C07", "one logical registry content materialised 4x per run on fresh simulated threads with different hash seeds (getrandom seam) and registration orders; each gather() compared with a reference model (complete, ordered, help/type, prefix, common labels) and all replicas with each other", "deterministic simulation: controlled per-thread hash seeds + registration-order permutations; reference model and replica-equality oracle"),
 "C14": ("§6 C14", "registry contents with collectors of different kinds under one name, 4 replicas under different hash seeds/orders; payload-type, printed-value and type-stability oracle; the merged mixed-kind families are a recorded known finding, anything else is reported", "deterministic simulation: controlled hash seeds + registration orders; payload/type oracle over gathered families and their text exposition"),
}
checks = []
for pid in sorted(claimed):
    ref, text, tech = claimed[pid]
    checks.append({"property_id": pid, "quick_cmd": f"./check {pid} quick", "thorough_cmd": f"./check {pid} thorough", "evidence_file": f"/verif/evidence/{pid}.json", "replay_cmd_template": "./check --replay {path}", "engine": "dsim", "level_claimed": {"category": "exploration", "text": text, "design_ref": ref}, "level_note": NOTE, "technique": tech})
NA = {}
hooks = subprocess.run(["git", "-C", "/repo", "log", "--format=%h %s"], capture_output=True, text=True).stdout.splitlines()
hook_commits = [l.split()[0] for l in hooks if "verif-hook:" in l]
m = {"version": 1, "setup_cmd": "cd /verif && ./check --build",
     "hooks": {"guard": "prometheus_verif", "enable": "RUSTFLAGS='--cfg prometheus_verif' (set in /verif/dsim/.cargo/config.toml); dsim depends on /repo by path, so every check rebuilds from /repo's working tree", "baseline_off_cmd": "cd /repo && cargo test --workspace --no-fail-fast --offline", "source_commits": hook_commits[::-1], "add_only": True},
     "engines": [{"name": "dsim", "path": "/verif/dsim", "serves_properties": sorted(claimed), "kind_free_text": "deterministic simulator: baton scheduler over real OS threads running the real library through the cfg(prometheus_verif) shim; seeded schedules, fault injection, discrete-event clock, vector clocks, replay files, minimiser"}],
     "checks": checks,
     "notes": "work in progress: properties not yet listed under checks are being built in this round; see DESIGN.md §12",
     "not_applicable": [{"property_id": p["id"], "reason": NA.get(p["id"], "check under construction in this round (not yet registered); see DESIGN.md §12")} for p in props if p["id"] not in claimed]}
json.dump(m, open('/verif/MANIFEST.json', 'w'), indent=1)
print("claimed", sorted(claimed))
