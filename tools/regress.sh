#!/bin/bash
# regress.sh: every recorded property-breaking change must still be reported by its check, and every
# behaviour-preserving one must still be green. Applies each patch to /repo in turn (always reverted).
cd /verif
fail=0
for d in seeded/*/; do
  k=$(basename $d); id=$(python3 -c "import json,sys; print(json.load(open('$d/meta.json'))['check']['id'])" 2>/dev/null || echo ${k%%-*})
  r=$(./tools/runmutant.sh $d/patch.diff $id 2>&1 | tail -1)
  case "$r" in *"exit=1") echo "ok   $k detected";; *) echo "MISS $k ($r)"; fail=1;; esac
done
while read m id; do
  r=$(./tools/runmutant.sh mutants/$m.diff $id 2>&1 | tail -1)
  case "$r" in *"exit=1") echo "ok   $m ($id) detected";; *) echo "MISS $m $id ($r)"; fail=1;; esac
done <<'LIST'
h_nowait C02
h_count_before_sum C02
h_nolock C03
h_nocountmerge C03
h_nobucketmerge C03
h_nosummerge C03
h_claim_relaxed C02
h_flip_acquire C02
h_flush_per_obs C03
v_no_second_lookup C10
v_reset_noop C10
v_collect_dup C10
v_remove_always_ok C10
v_map_ignores_names C10
v_collect_reads_after_unlock C10
v_collect_try_read_gives_up C10
v_separator_removed C05
l_flush_no_zero C12
l_clone_not_cleared C12
l_drop_no_flush C12
l_hist_clear_keeps_sum C12
l_counter_clone_keeps C12
t_discard_records C18
t_double_on_drop C18
t_local_drop_none C18
f_plain_help_lower C16
m_gauge_registry_ignored C20
m_histvec_drops_buckets C20
m_countervec_returns_copy C20
m_opts_first_labels_only C20
s_tryget_matches_name C19
s_prev_label_shift C19
s_flush_skips_last C19
reintroduce_D2_dim_hash_recorded_before_acceptance C06
LIST
for f in mutants/revert_*.diff; do
  case $f in *8f051b7*) id=C05;; *8037fcb*) id=C06;; *5159ee0*) id=C07;; *78a291c*|*0a1cf55*) id=C09;; *b715daa*) id=C08;; *efbdbac*) id=C17;; esac
  r=$(./tools/runmutant.sh $f $id 2>&1 | tail -1)
  case "$r" in *"exit=1") echo "ok   $(basename $f) ($id) detected";; *) echo "MISS $(basename $f) $id ($r)"; fail=1;; esac
done
exit $fail
