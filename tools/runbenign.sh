#!/bin/bash
# runbenign.sh <diff> <Cxx>... : a behaviour-preserving patch must leave every listed check green
d=$(readlink -f $1); shift
trap 'git -C /repo checkout -- . 2>/dev/null' EXIT INT TERM
git -C /repo apply "$d" || { echo "APPLY FAILED $d"; exit 3; }
( cd /verif/dsim && cargo build --release --offline 2>/verif/work/build.log ) || { echo "BUILD FAILED"; tail -20 /verif/work/build.log; exit 3; }
for id in "$@"; do
  BIN=/verif/dsim/target/release/dsim
  if [ "$id" = "C16" ]; then ( cd /verif/dsim && cargo build --release --offline --no-default-features --target-dir target-nopb 2>/verif/work/build.log ) || { echo BUILD FAILED; exit 3; }; fi
  if [ "$id" = "C19" ]; then ( cd /verif/dsim-static && cargo build --release --offline 2>/verif/work/build.log ) || { echo BUILD FAILED; exit 3; }; BIN=/verif/dsim-static/target/release/dsim-static; fi
  out=$(VERIF_TIMEOUT_S=300 VERIF_DIR=/verif/work/mut timeout 600 $BIN check $id --no-evidence 2>&1); rc=$?
  echo "$(basename $d) $id exit=$rc $(echo "$out" | grep -E "^\s+\[|HARNESS" | head -2 | cut -c1-260)"
done
