#!/bin/bash
# runmutant.sh <diff> <Cxx> [runs]  — apply to /repo, build, run the check with --no-evidence, revert.
d=$(readlink -f $1); id=$2; runs=${3:-}
trap 'git -C /repo checkout -- . 2>/dev/null' EXIT INT TERM
git -C /repo apply "$d" || { echo "APPLY FAILED $d"; exit 3; }
( cd /verif/dsim && cargo build --release --offline 2>/verif/work/build.log ) || { echo "BUILD FAILED"; tail -20 /verif/work/build.log; exit 3; }
if [ "$id" = "C16" ]; then ( cd /verif/dsim && cargo build --release --offline --no-default-features --target-dir target-nopb 2>/verif/work/build.log ) || { echo "BUILD FAILED"; tail -20 /verif/work/build.log; exit 3; }; fi
BIN=/verif/dsim/target/release/dsim
if [ "$id" = "C19" ]; then ( cd /verif/dsim-static && cargo build --release --offline 2>/verif/work/build.log ) || { echo "BUILD FAILED"; tail -20 /verif/work/build.log; exit 3; }; BIN=/verif/dsim-static/target/release/dsim-static; fi
VERIF_TIMEOUT_S=120 VERIF_DIR=/verif/work/mut timeout 300 $BIN check $id ${runs:+--runs $runs} --no-evidence | grep -E "^VIOLATION|^\s+\[|HARNESS|^C[0-9]+ " | cut -c1-260
rc=${PIPESTATUS[0]}
echo "== $(basename $d) $id exit=$rc"
