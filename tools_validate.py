#!/usr/bin/env python3
"""Validate MANIFEST.json and evidence files against the schemas (run with python3-vt)."""
import json, sys, glob, jsonschema
m = json.load(open('/verif/MANIFEST.json'))
jsonschema.validate(m, json.load(open('/root/.vp/MANIFEST.schema.json')))
es = json.load(open('/root/.vp/EVIDENCE.schema.json'))
ok = True
for c in m['checks']:
    try:
        jsonschema.validate(json.load(open(c['evidence_file'])), es)
    except Exception as e:
        ok = False
        print("evidence", c['property_id'], "INVALID:", str(e)[:200])
props = [json.loads(l)['id'] for l in open('/verif/properties.jsonl')]
claimed = {c['property_id'] for c in m['checks']}
na = {n['property_id'] for n in m.get('not_applicable', [])}
for p in props:
    if p not in claimed and p not in na:
        ok = False
        print("property", p, "neither claimed nor not_applicable")
print("manifest ok;", len(claimed), "claimed,", len(na), "not applicable;", "evidence ok" if ok else "PROBLEMS")
sys.exit(0 if ok else 1)
