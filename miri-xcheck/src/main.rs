//! Weak-memory cross-check of C01 / C02 / C11 on the UNSHIMMED crate under Miri's seeded scheduler
//! (`-Zmiri-many-seeds`): Miri explores thread interleavings with preemption and emulates weak
//! memory (stale Relaxed/Acquire loads out of store buffers), which the dsim engine, exploring
//! sequentially consistent interleavings, does not. The oracles use program order and joins only
//! (there is no global clock here). Any assertion failure makes Miri report the failing seed.
use prometheus::core::{Collector, Metric};
use prometheus::*;
use std::sync::Arc;
use std::thread;

struct Rng(u64);
impl Rng {
    fn next(&mut self) -> u64 {
        self.0 = self.0.wrapping_add(0x9E3779B97F4A7C15);
        let mut z = self.0;
        z = (z ^ (z >> 30)).wrapping_mul(0xBF58476D1CE4E5B9);
        z = (z ^ (z >> 27)).wrapping_mul(0x94D049BB133111EB);
        z ^ (z >> 31)
    }
    fn below(&mut self, n: u64) -> u64 {
        self.next() % n
    }
}

fn decode(v: f64) -> u64 {
    assert!(v >= 0.0 && v.fract() == 0.0 && v < 9.0e15, "value {} is not a sum of issued updates", v);
    v as u64
}

// ----------------------------------------------------------------------------- C01
fn c01(plan: u64) {
    let mut r = Rng(plan);
    let float = r.below(2) == 0;
    let nthreads = 2 + r.below(2) as usize;
    let per = 1 + r.below(3) as usize;
    let cf = Counter::new("c", "h").unwrap();
    let ci = IntCounter::new("c", "h").unwrap();
    let mut hs = vec![];
    let mut all = 0u64;
    for t in 0..nthreads {
        let (cf, ci) = (cf.clone(), ci.clone());
        let bits: Vec<u32> = (0..per).map(|i| (t * 4 + i) as u32 + 8).collect();
        for b in &bits {
            all |= 1 << b;
        }
        hs.push(thread::spawn(move || {
            let mut mine = 0u64;
            let mut last = 0u64;
            for b in bits {
                if float {
                    cf.inc_by((1u64 << b) as f64)
                } else {
                    ci.inc_by(1u64 << b)
                }
                mine |= 1 << b;
                let v = if float { decode(cf.get()) } else { ci.get() };
                assert_eq!(v & mine, mine, "C01: a read misses this thread's own completed increments");
                assert!(v >= last, "C01: value went backwards on one thread: {} then {}", last, v);
                last = v;
            }
        }));
    }
    let mut last = 0;
    for _ in 0..3 {
        let v = if float { decode(cf.get()) } else { ci.get() };
        assert_eq!(v & !all, 0, "C01: read contains weight nobody added");
        assert!(v >= last, "C01: value went backwards for the reader");
        last = v;
    }
    for h in hs {
        h.join().unwrap();
    }
    let v = if float { decode(cf.get()) } else { ci.get() };
    assert_eq!(v, all, "C01: final value is not the sum of all increments");
}

// ----------------------------------------------------------------------------- C11
fn c11(plan: u64) {
    let mut r = Rng(plan);
    let float = r.below(2) == 0;
    let gf = Gauge::new("g", "h").unwrap();
    let gi = IntGauge::new("g", "h").unwrap();
    let nthreads = 2 + r.below(2) as usize;
    let mut hs = vec![];
    for t in 0..nthreads {
        let (gf, gi) = (gf.clone(), gi.clone());
        let n = 1 + r.below(3) as usize;
        hs.push(thread::spawn(move || {
            for i in 0..n {
                let w = 1i64 << (t * 4 + i + 8);
                if float {
                    gf.add(w as f64);
                    gf.inc();
                    gf.sub(w as f64);
                    gf.dec();
                } else {
                    gi.add(w);
                    gi.inc();
                    gi.sub(w);
                    gi.dec();
                }
            }
        }));
    }
    for h in hs {
        h.join().unwrap();
    }
    let v = if float { gf.get() } else { gi.get() as f64 };
    assert_eq!(v, 0.0, "C11: every add/inc was undone by sub/dec, yet the gauge reads {}", v);
}

// ----------------------------------------------------------------------------- C02 / C03
fn snapshot(h: &Histogram, via: u64) -> (u64, f64, Vec<(f64, u64)>) {
    let m = if via == 0 { h.metric() } else { h.collect()[0].get_metric()[0].clone() };
    let p = m.get_histogram();
    (p.get_sample_count(), p.get_sample_sum(), p.get_bucket().iter().map(|b| (b.upper_bound(), b.cumulative_count())).collect())
}
fn check_cut(s: &(u64, f64, Vec<(f64, u64)>), all: u64) -> u64 {
    let set = decode(s.1);
    assert_eq!(set & !all, 0, "C02: sum contains weight nobody observed");
    assert_eq!(s.0, set.count_ones() as u64, "C02: sample_count {} but sample_sum {} describes {} observations", s.0, s.1, set.count_ones());
    for (ub, cc) in &s.2 {
        let want = (0..64).filter(|k| set & (1u64 << k) != 0 && ((1u64 << k) as f64) <= *ub).count() as u64;
        assert_eq!(*cc, want, "C02: bucket le={} holds {} but {} observations of the sum are <= it", ub, cc, want);
    }
    set
}
fn c02(plan: u64) {
    let mut r = Rng(plan);
    let bounds = vec![(1u64 << (2 + r.below(6))) as f64, (1u64 << (10 + r.below(6))) as f64];
    let h = Histogram::with_opts(HistogramOpts::new("h", "help").buckets(bounds)).unwrap();
    let nobs = 1 + r.below(2) as usize;
    let ncol = 1 + r.below(2) as usize;
    let mut all = 0u64;
    let mut per_thread: Vec<Vec<u32>> = vec![];
    for t in 0..nobs {
        let n = 1 + r.below(3) as usize;
        let ks: Vec<u32> = (0..n).map(|i| (t * 4 + i) as u32).collect();
        for k in &ks {
            all |= 1 << k;
        }
        per_thread.push(ks);
    }
    let per_thread = Arc::new(per_thread);
    let mut hs = vec![];
    for t in 0..nobs {
        let h = h.clone();
        let pt = per_thread.clone();
        let local = r.below(4) == 0;
        hs.push(thread::spawn(move || {
            if local {
                let l = h.local();
                for k in &pt[t] {
                    l.observe((1u64 << k) as f64);
                }
                l.flush();
            } else {
                for k in &pt[t] {
                    h.observe((1u64 << k) as f64);
                }
            }
        }));
    }
    for c in 0..ncol {
        let h = h.clone();
        let pt = per_thread.clone();
        let via = r.below(2);
        hs.push(thread::spawn(move || {
            let mut prev = 0u64;
            for _ in 0..2 {
                let s = snapshot(&h, via);
                let set = check_cut(&s, all);
                // per-thread prefix
                for ks in pt.iter() {
                    let mut missing = false;
                    for k in ks {
                        let inc = set & (1u64 << k) != 0;
                        assert!(!(inc && missing), "C02: snapshot contains a thread's later observation without an earlier one");
                        if !inc {
                            missing = true;
                        }
                    }
                }
                assert_eq!(prev & !set, 0, "C03: a later snapshot of the same thread lost observations");
                prev = set;
            }
            let _ = c;
        }));
    }
    for x in hs {
        x.join().unwrap();
    }
    let s = snapshot(&h, 0);
    let set = check_cut(&s, all);
    assert_eq!(set, all, "C03: snapshot after all threads finished misses observations");
    assert_eq!(h.get_sample_count(), s.0);
    assert_eq!(h.get_sample_sum(), s.1);
}

fn main() {
    let args: Vec<String> = std::env::args().collect();
    let which = args.get(1).map(|s| s.as_str()).unwrap_or("c02");
    let plans: u64 = args.get(2).and_then(|s| s.parse().ok()).unwrap_or(4);
    for p in 0..plans {
        match which {
            "c01" => c01(0xC01 + p * 7919),
            "c11" => c11(0xC11 + p * 7919),
            _ => c02(0xC02 + p * 7919),
        }
    }
    println!("ok {} {} plans", which, plans);
}
